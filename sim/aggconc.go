package colsim

import (
	"fmt"
	"math"
	"sort"
)

// Aggregates beside committing writers (C04 part B). An aggregate reads every block of the
// selection at some instant of the call at which no commit is being applied to that block
// (it holds the block's read latch), so its result must be explainable by choosing, per
// block, one of the committed states the block went through during the call: the state
// at the start of the call or the state after any commit applied to it meanwhile. An
// aggregate that takes its numerator and its denominator (or the value and the presence
// bit) of one block from two different states is explainable by no such choice.

// aggView is what one committed state of one block contributes to an aggregate.
type aggView struct {
	n      int
	sum    uint64
	mn, mx uint64
	exact  bool // float sums: every addend is a small integer, the sum does not depend on the order
	nan    bool // some value is NaN: smallest and largest are not defined
}

// aggWatch collects, while an aggregate call is in progress on a thread, the candidate
// states of every block of the selection.
type aggWatch struct {
	col    ColSpec
	nk     *numKind
	offs   map[uint32][]uint32 // selected offsets per block
	blocks []uint32
	cands  map[uint32][]aggView
}

func newAggWatch(m *Model, col ColSpec, s sel) *aggWatch {
	aw := &aggWatch{col: col, nk: nums[col.Kind], offs: map[uint32][]uint32{}, cands: map[uint32][]aggView{}}
	for _, o := range s.sorted() {
		aw.offs[o>>14] = append(aw.offs[o>>14], o)
	}
	for b := range aw.offs {
		aw.blocks = append(aw.blocks, b)
	}
	sort.Slice(aw.blocks, func(i, j int) bool { return aw.blocks[i] < aw.blocks[j] })
	for _, b := range aw.blocks {
		aw.note(m, b)
	}
	return aw
}

// note records the committed state of a block as it is in the model right now.
func (aw *aggWatch) note(m *Model, b uint32) {
	offs, ok := aw.offs[b]
	if !ok {
		return
	}
	v := aggView{exact: true}
	nk := aw.nk
	for _, o := range offs {
		val, ok := m.Get(o, aw.col.Name)
		if !ok {
			continue // no live row at the offset any more, or the row holds no value
		}
		if aw.col.Kind.Float() {
			f := nk.toF64(val.U)
			if math.IsNaN(f) || math.IsInf(f, 0) || math.Abs(f) > 1<<20 || f != math.Trunc(f) {
				v.exact = false
			}
			v.nan = v.nan || math.IsNaN(f)
		}
		if v.n == 0 {
			v.sum, v.mn, v.mx = val.U, val.U, val.U
		} else {
			v.sum = nk.mmerge("", v.sum, val.U)
			if nk.less(val.U, v.mn) {
				v.mn = val.U
			}
			if nk.less(v.mx, val.U) {
				v.mx = val.U
			}
		}
		v.n++
	}
	aw.cands[b] = append(aw.cands[b], v)
}

// combos calls f with every choice of one candidate per block until f returns true;
// it reports whether some choice was accepted, and whether the space was small enough to
// be enumerated at all.
func (aw *aggWatch) combos(f func(pick []aggView) bool) (accepted, enumerated bool) {
	total := 1
	for _, b := range aw.blocks {
		total *= len(aw.cands[b])
		if total > 4096 {
			return false, false
		}
	}
	pick := make([]aggView, len(aw.blocks))
	var rec func(i int) bool
	rec = func(i int) bool {
		if i == len(aw.blocks) {
			return f(pick)
		}
		for _, c := range aw.cands[aw.blocks[i]] {
			pick[i] = c
			if rec(i + 1) {
				return true
			}
		}
		return false
	}
	return rec(0), true
}

// fold combines the per-block contributions of one choice.
func (aw *aggWatch) fold(pick []aggView) (t aggView) {
	t.exact = true
	for _, v := range pick {
		t.exact = t.exact && v.exact
		t.nan = t.nan || v.nan
		if v.n == 0 {
			continue
		}
		if t.n == 0 {
			t.sum, t.mn, t.mx = v.sum, v.mn, v.mx
		} else {
			t.sum = aw.nk.mmerge("", t.sum, v.sum)
			if aw.nk.less(v.mn, t.mn) {
				t.mn = v.mn
			}
			if aw.nk.less(t.mx, v.mx) {
				t.mx = v.mx
			}
		}
		t.n += v.n
	}
	if t.n == 0 {
		t.sum = aw.nk.canon(0)
	}
	return t
}

// describe lists the candidate states for a report.
func (aw *aggWatch) describe() string {
	s := ""
	for _, b := range aw.blocks {
		s += fmt.Sprintf(" block %d:", b)
		for _, c := range aw.cands[b] {
			if c.n == 0 {
				s += " {no values}"
			} else {
				s += fmt.Sprintf(" {n=%d sum=%s min=%s max=%s}", c.n, aw.nk.show(c.sum), aw.nk.show(c.mn), aw.nk.show(c.mx))
			}
		}
	}
	return s
}

// aggConc runs Sum, Avg, Min and Max of a numeric column over the selection s (the result
// of the filter chain, already established) while writers commit, and judges each result
// against the candidate states collected during that very call.
func (x *txnCtx) aggConc(op *Op, s sel) {
	w := x.w
	col, ok := w.model.Col(op.Col)
	if !ok || !col.Kind.Numeric() || w.viol != nil {
		return
	}
	nk := nums[col.Kind]
	same := func(a, b uint64) bool {
		return a == b || (col.Kind.Float() && nk.toF64(a) == nk.toF64(b))
	}
	run := func(what string, call func(), judge func(t aggView) (ok, skip bool)) bool {
		aw := newAggWatch(w.model, col, s)
		w.aggWatch[x.thread] = aw
		call()
		delete(w.aggWatch, x.thread)
		if w.viol != nil {
			return false
		}
		skipped := false
		accepted, enumerated := aw.combos(func(pick []aggView) bool {
			ok, skip := judge(aw.fold(pick))
			skipped = skipped || skip
			return ok
		})
		w.stats.Checks++
		if !enumerated || accepted || skipped {
			return true
		}
		multi := 0
		for _, b := range aw.blocks {
			if len(aw.cands[b]) > 1 {
				multi++
			}
		}
		if multi > 0 {
			w.stats.probe("aggregate-judged-against-several-states")
		}
		w.fail(violation("aggregate-concurrent/"+what+"/"+string(col.Kind), "%s(%q) after %s beside committing writers %s, which no choice of one committed state per block explains; states each block went through during the call:%s",
			what, op.Col, showChain(op.Filter), x.aggGot, aw.describe()))
		return false
	}
	var gotU uint64
	var gotF float64
	var gotOK bool
	if !run("sum", func() { gotU = nk.sum(x.txn, op.Col); x.aggGot = "= " + nk.show(gotU) }, func(t aggView) (bool, bool) {
		if !t.exact {
			return false, true
		}
		return same(gotU, t.sum), false
	}) {
		return
	}
	if !run("avg", func() { gotF = nk.avg(x.txn, op.Col); x.aggGot = fmt.Sprintf("= %v", gotF) }, func(t aggView) (bool, bool) {
		if !t.exact || t.n == 0 {
			return false, true // over no values the mean is undefined in the statement
		}
		return gotF == nk.toF64(t.sum)/float64(t.n), false
	}) {
		return
	}
	minmax := func(what string, call func(string) (uint64, bool), pick func(t aggView) uint64) bool {
		return run(what, func() {
			gotU, gotOK = call(op.Col)
			x.aggGot = fmt.Sprintf("= %s,%v", nk.show(gotU), gotOK)
		}, func(t aggView) (bool, bool) {
			if t.n == 0 {
				// nothing holds a value: whether a value is reported over a non-empty selection
				// is not stated
				return !gotOK, len(s) > 0
			}
			if t.nan {
				return false, true
			}
			return gotOK && same(gotU, pick(t)), false
		})
	}
	if !minmax("min", func(n string) (uint64, bool) { return nk.min(x.txn, n) }, func(t aggView) uint64 { return t.mn }) {
		return
	}
	minmax("max", func(n string) (uint64, bool) { return nk.max(x.txn, n) }, func(t aggView) uint64 { return t.mx })
	w.stats.probe("aggregates-under-concurrent-commits")
}
