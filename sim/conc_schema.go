package colsim

import (
	"fmt"

	"github.com/kelindar/column"
)

// checkAscendAll is the C16 oracle over the whole collection at quiescence: the sequence
// visited through the sorted index contains exactly the live rows holding a value, each
// once, in non-decreasing order of the model's values.
func checkAscendAll(c *column.Collection, m *Model, sx SortSpec) *Violation {
	var seq []uint32
	err := c.Query(func(txn *column.Txn) error {
		return txn.Ascend(sx.Name, func(idx uint32) { seq = append(seq, idx) })
	})
	if err != nil {
		return violation("ascend/error", "Ascend(%q) returned %v", sx.Name, err)
	}
	want := map[uint32]bool{}
	for off := range m.Rows {
		if _, ok := m.Get(off, sx.Col); ok {
			want[off] = true
		}
	}
	seen := map[uint32]bool{}
	prev := ""
	for i, o := range seq {
		if seen[o] {
			return violation("ascend/duplicate", "Ascend(%q) visited row %d twice", sx.Name, o)
		}
		seen[o] = true
		if !want[o] {
			return violation("ascend/extra", "Ascend(%q) visited row %d which is not a live row holding a value in %q", sx.Name, o, sx.Col)
		}
		v, _ := m.Get(o, sx.Col)
		if i > 0 && v.S < prev {
			return violation("ascend/order", "Ascend(%q) visited %q (row %d) after %q", sx.Name, v.S, o, prev)
		}
		prev = v.S
	}
	for _, o := range m.Live() {
		if want[o] && !seen[o] {
			v, _ := m.Get(o, sx.Col)
			return violation("ascend/missing", "Ascend(%q) visited %d of %d rows holding a value; row %d (%q) was skipped", sx.Name, len(seq), len(want), o, v.S)
		}
	}
	return nil
}

// concTrigger is a trigger created (and possibly dropped) by the schema thread while
// writers commit.
type concTrigger struct {
	name, col string
	kind      Kind
	created   int // scheduler step in which CreateTrigger ran
	dropped   int // scheduler step in which DropTrigger ran, -1 = never
	got       []concTrigEvent
}

type concTrigEvent struct {
	trigEvent
	step, tid int
}

func (w *World) createConcTrigger(name, col string) {
	cs, ok := w.model.Col(col)
	if !ok || cs.Kind == KBool || cs.Kind == KKey {
		return
	}
	t := &concTrigger{name: name, col: col, kind: cs.Kind, dropped: -1}
	err := w.primary.CreateTrigger(name, col, func(r column.Reader) {
		ev := concTrigEvent{step: w.sim.steps, tid: w.tid()}
		ev.Trig, ev.Off, ev.Delete = name, r.Index(), r.IsDelete()
		if !ev.Delete {
			if cs.Kind.Numeric() {
				ev.Raw = uint64(r.Uint())
			} else {
				ev.S = string(r.Bytes())
			}
		}
		t.got = append(t.got, ev)
	})
	if err != nil {
		w.fail(violation("schema", "CreateTrigger(%q): %v", name, err))
		return
	}
	t.created = w.sim.steps
	w.conc.trigs = append(w.conc.trigs, t)
	w.stats.probe("trigger-created-beside-writers")
}

func (w *World) dropConcTrigger(name string) {
	for _, t := range w.conc.trigs {
		if t.name == name && t.dropped < 0 {
			if err := w.primary.DropTrigger(name); err != nil {
				w.fail(violation("schema", "DropTrigger(%q): %v", name, err))
				return
			}
			t.dropped = w.sim.steps
			w.stats.probe("trigger-dropped-beside-writers")
		}
	}
}

// checkConcTriggers is the C19 oracle under concurrency. A block commit (latch taken at
// step a, released at step b) lies inside a trigger's life (created at c, dropped at d)
// if c < a and b < d: the trigger must then have been told exactly that commit's stores to
// its column (issue order per row, final values) and row deletions, once each. A commit
// that ended before the creation or started after the drop must not reach it. Commits
// overlapping the creation or the drop may or may not be seen and are not judged.
func (w *World) checkConcTriggers() *Violation {
	st := w.conc
	for _, t := range st.trigs {
		used := make([]bool, len(t.got))
		for _, list := range st.perBlock {
			for _, bc := range list {
				if bc.endStep < 0 {
					continue
				}
				inside := t.created < bc.startStep && (t.dropped < 0 || bc.endStep < t.dropped)
				outside := bc.endStep < t.created || (t.dropped >= 0 && bc.startStep > t.dropped)
				// events of this commit: same thread, block and step window
				var got []trigEvent
				for i, ev := range t.got {
					if ev.tid == bc.mt.Thread && ev.Off>>14 == bc.block && ev.step >= bc.startStep && ev.step <= bc.endStep {
						got = append(got, ev.trigEvent)
						used[i] = true
					}
				}
				if !inside && !outside {
					continue
				}
				if outside {
					if len(got) > 0 {
						return violation("trigger/fired-outside-lifetime", "trigger %q (created at step %d, dropped at %d) was called %d times by the commit of thread %d to block %d (steps %d..%d)", t.name, t.created, t.dropped, len(got), bc.mt.Thread, bc.block, bc.startStep, bc.endStep)
					}
					continue
				}
				lg := &trigLog{w: w, watch: map[string]string{t.name: t.col}, order: []string{t.name}}
				lg.expect(bc.mt.changes[bc.block])
				lg.got = got
				if v := lg.check(); v != nil {
					v.Detail = fmt.Sprintf("commit of thread %d to block %d (steps %d..%d, trigger alive %d..%d): %s", bc.mt.Thread, bc.block, bc.startStep, bc.endStep, t.created, t.dropped, v.Detail)
					return v
				}
				w.stats.Checks++
			}
		}
	}
	return nil
}
