package colsim

import (
	"encoding/binary"
	"fmt"
	"os"
	"sort"

	"github.com/kelindar/column"
	"github.com/kelindar/column/commit"
)

func (st *concState) counts(onlyDone bool) map[uint32]int {
	out := map[uint32]int{}
	for b, list := range st.perBlock {
		n := 0
		for _, bc := range list {
			if onlyDone && !bc.done {
				break
			}
			n++
		}
		out[b] = n
	}
	if !onlyDone {
		// a commit that has taken the block's latch but has not reached the point at which the
		// model applies it (it is inside commitMarkers: the fill list already changes) is under
		// way: it overlaps whatever returns now, so it may or may not be part of it
		for tid, blocks := range st.holding {
			for b := range blocks {
				if st.cur[tid][b] == nil {
					out[b]++
				}
			}
		}
	}
	return out
}

// takeSnapshot is the snapshotter thread's action (C08).
func (w *World) takeSnapshot(healthy bool) {
	st := w.conc
	s := &snapRec{file: NewSimFile(), ack: st.counts(true), applied0: st.counts(false)}
	if NewRng(w.cs.Seed, uint64(w.cs.Run), uint64(len(st.snaps)), 107).Chance(0.3) {
		// fault "slow destination": the snapshotting thread yields inside (the first few of) its
		// writes, holding whatever the library holds at that moment (own PRNG stream)
		slow := 12
		sr := NewRng(w.cs.Seed, uint64(w.cs.Run), uint64(len(st.snaps)), 108)
		s.file.OnWrite = func() {
			if slow > 0 && w.sim != nil && w.sim.cur != nil && sr.Chance(0.4) {
				slow--
				w.stats.fault("slow-snapshot-destination")
				w.sim.Yield(ptDiskIO)
			}
		}
	}
	// a Snapshot that starts while another call has its recorder installed is refused (that
	// is the library's contract for overlapping snapshots); the recorder is claimed right at
	// the start of the call, before its first yield
	refused := st.recorderBy != 0
	// (a call whose destination already failed detaches its recorder before it returns: while
	// it is still on its way out, a new call may or may not find the slot taken)
	uncertain := refused && st.recorderFile != nil && st.recorderFile.Fired > 0
	if !refused {
		st.recorderBy = w.tid() + 1
		st.recorderFile = s.file
	}
	defer func() {
		if st.recorderBy == w.tid()+1 {
			st.recorderBy = 0 // (a call that failed while writing the state detaches its recorder itself)
		}
	}()
	if st.or.snapfault && !healthy {
		for _, f := range w.cs.Faults {
			switch f.Kind {
			case "snap-write-call":
				s.file.Plan = WritePlan{FailAtCall: f.At, FailAtByte: -1}
			case "snap-write-byte":
				s.file.Plan = WritePlan{FailAtByte: f.N}
			case "snap-write-short":
				s.file.Plan = WritePlan{FailAtByte: f.N, ShortNoErr: true}
			}
		}
	}
	st.snaps = append(st.snaps, s)
	w.seq++
	func() {
		defer func() {
			if r := recover(); r != nil {
				s.panicked = r
				s.err = fmt.Errorf("panic at %s: %v", panicFrame(), r)
				w.fail(violation("snapshot-panic/"+panicFrame(), "Snapshot panicked while transactions were committing: %v", r))
			}
		}()
		s.err = w.primary.Snapshot(s.file)
	}()
	s.applied1 = st.counts(false)
	if uncertain {
		if s.err != nil && s.file.Fired == 0 {
			s.err = fmt.Errorf("refused: %v", s.err)
			w.stats.probe("snapshot-refused-while-another-is-recording")
			return
		}
		refused = false // accepted: the slot is this call's now, judged like any other call from here on
		st.recorderBy = w.tid() + 1
		st.recorderFile = s.file
	}
	if refused != (s.err != nil && s.file.Fired == 0) && s.panicked == nil {
		if refused {
			w.fail(violation("snapshot-overlap/not-refused", "a Snapshot that started while another one had its recorder installed returned %v (two snapshots at once share one recorder slot)", s.err))
		} else if !st.or.snapfault {
			w.fail(violation("snapshot-error", "Snapshot returned %v while transactions were committing (no other snapshot was recording)", s.err))
		}
	}
	if refused {
		s.err = fmt.Errorf("refused: %v", s.err)
		w.stats.probe("snapshot-refused-while-another-is-recording")
		return
	}
	if st.or.snapfault && s.panicked == nil {
		w.stats.Checks++
		if s.file.Fired > 0 {
			w.stats.fault("snapshot-write-fault-under-commits")
			if s.stateLen > 0 {
				w.stats.probe("fault-in-log-copy-phase")
			}
		}
		switch {
		case s.err == nil && s.file.Fired > 0:
			w.fail(violation("snapshot-fault/unreported", "the destination writer returned an error (%d bytes accepted, %d of them after the recorder was closed) but Snapshot returned nil", len(s.file.Data), len(s.file.Data)-s.stateLen))
		case s.err != nil && s.file.Fired == 0:
			w.fail(violation("snapshot-fault/spurious-error", "Snapshot returned %v although the destination writer never failed", s.err))
		}
	} else if s.err != nil && s.panicked == nil {
		w.fail(violation("snapshot-error", "Snapshot returned %v while transactions were committing", s.err))
	}
	if len(s.applied1) > 0 {
		for b, n := range s.applied1 {
			if n > s.applied0[b] {
				w.stats.probe("commit-during-snapshot")
			}
		}
	}
}

// readAllRows reads every live row of a collection through the Row readers.
func readAllRows(c *column.Collection, cols []ColSpec) map[uint32]map[string]MVal {
	out := map[uint32]map[string]MVal{}
	for _, off := range liveOffsets(c) {
		off := off
		row := map[string]MVal{}
		c.Query(func(txn *column.Txn) error {
			return txn.QueryAt(off, func(r column.Row) error {
				for _, col := range cols {
					if v, ok := readCol(txn, r, col, flRow); ok && !(col.Kind == KBool && v.U == 0) {
						row[col.Name] = v
					}
				}
				return nil
			})
		})
		out[off] = row
	}
	return out
}

func sameRows(cols []ColSpec, got, want map[uint32]map[string]MVal, block uint32) (bool, string) {
	var offs []uint32
	for o := range got {
		if o>>14 == block {
			offs = append(offs, o)
		}
	}
	for o := range want {
		if o>>14 == block {
			if _, ok := got[o]; !ok {
				return false, fmt.Sprintf("row %d missing", o)
			}
		}
	}
	sort.Slice(offs, func(i, j int) bool { return offs[i] < offs[j] })
	for _, o := range offs {
		wr, ok := want[o]
		if !ok {
			return false, fmt.Sprintf("row %d unexpected", o)
		}
		for _, col := range cols {
			gv, gok := got[o][col.Name]
			wv, wok := wr[col.Name]
			if !sameVal(col.Kind, gv, gok, wv, wok) {
				return false, fmt.Sprintf("row %d column %q: restored %s, expected %s", o, col.Name, showOpt(col.Kind, gv, gok), showOpt(col.Kind, wv, wok))
			}
		}
	}
	return true, ""
}

// checkSnapshot restores a snapshot taken under concurrent commits and checks that every
// block equals the primary's block after some prefix of the commits applied to it, the
// prefix covering everything acknowledged before the call and nothing applied after it
// returned.
func (w *World) checkSnapshot(i int, s *snapRec) *Violation {
	if s.err != nil {
		return nil // already reported
	}
	fresh := w.newCollection(nil)
	rng := NewRng(w.cs.Seed, uint64(w.cs.Run), uint64(i), 43)
	if err := fresh.Restore(NewSimReader(s.file.Data, rng, []int{0, 1, 64, 4096}[rng.Intn(4)])); err != nil {
		return violation("snapshot-cut/restore-error", "snapshot #%d (%d bytes) taken under concurrent commits does not restore: %v", i, len(s.file.Data), err)
	}
	w.stats.Checks++
	got := readAllRows(fresh, w.model.Cols)
	return w.checkRestoredCut(i, s, fresh, got, s.ack, fmt.Sprintf("snapshot #%d", i))
}

// checkRestoredCut judges a restored state against the model: key lookups coherent, and
// every block equal to the model after some prefix of the commits applied to it, at least
// lo[b] and at most what had been applied when the Snapshot call returned.
func (w *World) checkRestoredCut(i int, s *snapRec, fresh *column.Collection, got map[uint32]map[string]MVal, lo map[uint32]int, what string) *Violation {
	st := w.conc
	// the restored lookup table is coherent with the restored rows: every key a live row
	// holds resolves to exactly that row
	if kc, ok := w.model.KeyCol(); ok {
		for off, r := range got {
			kv, has := r[kc.Name]
			if !has {
				continue
			}
			at, reached := uint32(0), false
			err := fresh.QueryKey(kv.S, func(r column.Row) error {
				at, reached = r.Index(), true
				return nil
			})
			if err != nil || !reached || at != off {
				// (two restored rows holding one key is the known finding of C12 and shows up there)
				if other, dup := got[at]; !(reached && dup && other[kc.Name].S == kv.S) {
					return violation("snapshot-cut/key-lookup", "%s: restored row %d holds key %q but QueryKey reaches (row %d, reached=%v, err=%v)", what, off, kv.S, at, reached, err)
				}
			}
		}
	}
	blocks := map[uint32]bool{}
	for o := range got {
		blocks[o>>14] = true
	}
	for o := range st.setupModel.Rows {
		blocks[o>>14] = true
	}
	for b := range st.perBlock {
		blocks[b] = true
	}
	var bl []uint32
	for b := range blocks {
		bl = append(bl, b)
	}
	sort.Slice(bl, func(i, j int) bool { return bl[i] < bl[j] })
	for _, b := range bl {
		list := st.perBlock[b]
		m := st.setupModel.Clone()
		why := ""
		var firstWhy string
		lo, hi := lo[b], s.applied1[b]
		var matches []int
		for j := 0; j <= len(list); j++ {
			if j > 0 {
				m.applyBlockRaw(list[j-1].mt, b)
			}
			ok, d := sameRows(w.model.Cols, got, m.Rows, b)
			if ok {
				matches = append(matches, j)
			}
			if j == lo {
				firstWhy = d
			}
			if !ok {
				why = d
				if os.Getenv("COLSIM_DEBUG") != "" {
					fmt.Printf("  snapshot #%d block %d vs prefix %d: %s\n", i, b, j, d)
				}
			}
		}
		legal := false
		for _, j := range matches {
			if j >= lo && j <= hi {
				legal = true
				if j > s.applied0[b] {
					w.stats.probe("snapshot-includes-commit-applied-during-call")
				}
			}
		}
		if legal {
			continue
		}
		if len(matches) > 0 && matches[len(matches)-1] < lo {
			return violation("snapshot-cut/lost-acknowledged", "%s block %d equals the state after %d commits, but %d commits to that block were acknowledged before Snapshot was called (%d applied when it returned)", what, b, matches[len(matches)-1], lo, hi)
		}
		if len(matches) > 0 {
			return violation("snapshot-cut/future", "%s block %d equals the state after %d commits, but only %d had been applied when Snapshot returned", what, b, matches[0], hi)
		}
		if firstWhy == "" {
			firstWhy = why
		}
		return violation("snapshot-cut/no-prefix", "%s block %d equals no prefix of the %d commits applied to it (acknowledged before the call: %d, applied at return: %d); against the acknowledged prefix: %s", what, b, len(list), lo, hi, firstWhy)
	}
	return nil
}

// ---------------------------------------------------------------------------------
// decoded operations of an emitted commit versus what the transaction issued (C05 on the
// real path, C09 chain of absolute values)

func encodeVal(k Kind, v MVal) []byte {
	switch {
	case k == KBool:
		return nil
	case k.Numeric():
		n := nums[k].bits / 8
		b := make([]byte, 8)
		binary.BigEndian.PutUint64(b, v.U)
		return b[8-n:]
	}
	return []byte(v.S)
}

// checkDecoded compares one emitted commit with the model's committed changes of that
// (transaction, block): per column and row the same sequence of stores, merges turned
// into puts of the merged result; row markers equal the inserts and deletes.
func (w *World) checkDecoded(tc *TapCommit, mt *MTxn, changes []Change) *Violation {
	type key struct {
		col string
		off uint32
	}
	want := map[key][][]byte{}
	wantBool := map[key][]bool{}
	var order []key
	for _, ch := range changes {
		if ch.Delete {
			continue
		}
		cs, ok := w.model.Col(ch.Col)
		if !ok {
			continue
		}
		k := key{ch.Col, ch.Off}
		if _, seen := want[k]; !seen && wantBool[k] == nil {
			order = append(order, k)
		}
		if cs.Kind == KBool {
			wantBool[k] = append(wantBool[k], ch.Val.U != 0)
			want[k] = want[k]
		} else {
			want[k] = append(want[k], encodeVal(cs.Kind, ch.Val))
		}
	}
	got := map[key][][]byte{}
	gotBool := map[key][]bool{}
	var ins, del []uint32
	for _, tb := range tc.Bufs {
		if tb.Col == "row" {
			for _, op := range tb.Ops {
				switch op.Type {
				case commit.Insert:
					ins = append(ins, op.Off)
				case commit.Delete:
					del = append(del, op.Off)
				}
			}
			continue
		}
		cs, ok := w.model.Col(tb.Col)
		if !ok {
			continue
		}
		for _, op := range tb.Ops {
			k := key{tb.Col, op.Off}
			switch {
			case op.Type == commit.Skip:
			case cs.Kind == KBool:
				gotBool[k] = append(gotBool[k], op.Type == commit.PutTrue)
			case op.Type == commit.Merge:
				return violation("stream/merge-not-resolved", "%s: column %q row %d still carries a merge delta, not the merged result", tc, tb.Col, op.Off)
			case op.Type == commit.Put:
				got[k] = append(got[k], op.Val)
			default:
				return violation("stream/unexpected-op", "%s: column %q row %d carries op type %d", tc, tb.Col, op.Off, op.Type)
			}
		}
	}
	for _, k := range order {
		cs, _ := w.model.Col(k.col)
		if cs.Kind == KBool {
			if fmt.Sprint(gotBool[k]) != fmt.Sprint(wantBool[k]) {
				return violation("stream/ops-differ/bool", "%s: column %q row %d: emitted %v, transaction stored %v", tc, k.col, k.off, gotBool[k], wantBool[k])
			}
			continue
		}
		g, wnt := got[k], want[k]
		if len(g) != len(wnt) {
			return violation("stream/ops-differ/count", "%s: column %q row %d: %d stores emitted, transaction committed %d", tc, k.col, k.off, len(g), len(wnt))
		}
		for i := range g {
			if string(g[i]) != string(wnt[i]) {
				return violation("stream/ops-differ/value", "%s: column %q row %d store #%d: emitted %x, committed %x", tc, k.col, k.off, i, clipB(g[i]), clipB(wnt[i]))
			}
		}
	}
	for k := range got {
		if _, ok := want[k]; !ok {
			return violation("stream/ops-differ/extra", "%s: column %q row %d: emitted a store the transaction did not commit in this block", tc, k.col, k.off)
		}
	}
	// row markers
	var wantIns, wantDel []uint32
	seenDel := map[uint32]bool{}
	for _, o := range mt.Ops {
		if o.Off>>14 != tc.Chunk {
			continue
		}
		switch {
		case o.Kind == mInsert && !o.Dead:
			wantIns = append(wantIns, o.Off)
		case o.Kind == mDelete && !seenDel[o.Off]:
			seenDel[o.Off] = true
			wantDel = append(wantDel, o.Off)
		}
	}
	su := func(a []uint32) string {
		b := append([]uint32{}, a...)
		sort.Slice(b, func(i, j int) bool { return b[i] < b[j] })
		return fmt.Sprint(b)
	}
	if su(ins) != su(wantIns) {
		return violation("stream/markers-differ/insert", "%s: insert markers %v, transaction inserted %v", tc, su(ins), su(wantIns))
	}
	if su(dedup(del)) != su(wantDel) {
		return violation("stream/markers-differ/delete", "%s: delete markers %v, transaction deleted %v", tc, su(del), su(wantDel))
	}
	return nil
}

func dedup(a []uint32) []uint32 {
	seen := map[uint32]bool{}
	var out []uint32
	for _, v := range a {
		if !seen[v] {
			seen[v] = true
			out = append(out, v)
		}
	}
	return out
}

func clipB(b []byte) []byte {
	if len(b) > 24 {
		return b[:24]
	}
	return b
}

// snapfaultQuiescent is the C14 part B oracle once all threads have finished: nothing left
// in the temp dir, no descriptor leaked, and a snapshot to a healthy writer restores to
// the model.
func (w *World) snapfaultQuiescent() {
	if left := tmpEntries(); len(left) > 0 {
		w.fail(violation("snapshot-leak/temp-file", "after the run (a snapshot failed: %v) the temp dir holds %v", w.conc.snaps[0].err, left))
		return
	}
	if fd := fdCount(); fd != w.conc.fd0 {
		w.fail(violation("snapshot-leak/fd", "the number of open descriptors changed from %d to %d over a run with a faulty snapshot destination", w.conc.fd0, fd))
		return
	}
	good := NewSimFile()
	if err := w.primary.Snapshot(good); err != nil {
		w.fail(violation("after-failed-snapshot/snapshot-error", "a Snapshot to a healthy writer after the run returned %v", err))
		return
	}
	fresh := w.newCollection(nil)
	if err := fresh.Restore(NewSimReader(good.Data, nil, 0)); err != nil {
		w.fail(violation("after-failed-snapshot/restore-error", "%v", err))
		return
	}
	if v := CompareDump(fresh, w.model, w.cs.Cfg.KeyAlpha, nil); v != nil {
		v.Sig = "after-failed-snapshot/" + v.Sig
		w.fail(v)
	}
}
