package colsim

import (
	"fmt"
	"math"
	"time"
)

// concProfile steers the generator of concurrent cases.
type concProfile struct {
	minWriters, maxWriters                                                          int
	minReaders, maxReaders                                                          int
	snapshots                                                                       int  // number of snapshotter threads
	replicas                                                                        bool // applier thread + channel/log replicas
	maxTxns, maxOps                                                                 int
	wUpdate, wMerge, wInsert, wDeleteOwn, wRangeRead, wRangeWrite, wPointRead, wKey int
	pAbort, pFailInsert                                                             float64
	multiBlock                                                                      float64
	maxCols                                                                         int
	pKeyCol                                                                         float64
	indexes                                                                         bool
	sharedKeys                                                                      float64 // probability that writers insert/upsert the same keys
	forceKinds                                                                      []Kind
	mergeKinds                                                                      bool    // schema biased to mergeable columns with order-sensitive merges
	farBlocks                                                                       float64 // probability of a layout with rows in blocks 128 and 129 (same latch shards as 0 and 1)
	stableRows                                                                      [2]int
	linkDelay                                                                       int
	indexers                                                                        int     // threads creating bitmap indexes on the primary beside the writers
	filterReaders                                                                   int     // reader threads running filter chains + Range beside the writers (C04 part B)
	schemaSorts, schemaTriggers                                                     bool    // the schema thread also creates sorted indexes / creates and drops triggers
	nearlyFull                                                                      float64 // probability of a layout whose last block is (nearly) full (default 0.25)
	stall                                                                           float64 // probability of a stall fault (default 0.25)
	ghost                                                                           float64 // probability of a run with the unmodelled column "ghost" that a schema thread drops (and re-creates) beside the writers
}

// genConc materialises a concurrent case: set-up transactions creating the stable rows,
// then the programs of writer, reader, snapshotter and applier threads.
func genConc(prop string, seed uint64, run int, p concProfile, av avoid) *Case {
	r := NewRng(seed, uint64(run), 2)
	g := &gen{r: r, av: av}
	g.p = seqProfile{maxCols: p.maxCols, pKeyCol: p.pKeyCol, pMerge: 0.5, forceKinds: p.forceKinds}
	cs := &Case{Prop: prop, World: "conc", Seed: seed, Run: run}
	g.cs = cs
	cs.Cfg.Capacity = capacities[r.Intn(len(capacities))]
	cs.Cfg.Avoid = av.list()
	cs.Cfg.Params = map[string]int{}
	g.genSchema()
	if p.mergeKinds {
		for i := range g.cols {
			c := &g.cols[i]
			switch {
			case c.Name == "expire":
			case c.Kind.Numeric():
				if r.Chance(0.5) {
					c.Merge = "affine"
				} else {
					c.Merge = ""
				}
			case c.Kind == KString:
				c.Merge = "concat"
			case c.Kind == KRecord:
				c.Merge = "sum"
			}
		}
	}
	if p.mergeKinds {
		g.shortMerges()
	}
	cs.Schema = append([]ColSpec{}, g.cols...)
	cs.Cfg.KeyAlpha = g.keys
	keyed := g.hasKey()

	// layout: stable rows at strategic offsets, possibly over several blocks
	nStable := r.Range(p.stableRows[0], p.stableRows[1])
	blocks := 1
	if r.Chance(p.multiBlock) {
		blocks = r.Range(2, 3)
	}
	pf := &Prefill{Blocks: blocks}
	var cand []uint32
	for _, o := range strategicOffsets {
		if int(o>>14) < blocks {
			cand = append(cand, o)
		}
	}
	for i := len(cand) - 1; i > 0; i-- {
		j := r.Intn(i + 1)
		cand[i], cand[j] = cand[j], cand[i]
	}
	if keyed {
		pf = nil // keyed rows are created through key operations below
		if kr := NewRng(seed, uint64(run), 87); kr.Chance(0.25) && (!p.replicas || kr.Chance(0.3)) {
			// keys beyond the first block: block 0 is full of (keyless) rows except for one hole, so
			// the key operations land in the hole and in block 1 (own PRNG stream)
			pf = &Prefill{Blocks: 1, KeepFull: []int{0}, Holes: []uint32{uint32(kr.Intn(1 << 14))}}
		}
	} else {
		if blocks > 1 {
			// make sure every block holds at least one stable row
			seen := map[uint32]bool{}
			var first []uint32
			var rest []uint32
			for _, o := range cand {
				if !seen[o>>14] {
					seen[o>>14] = true
					first = append(first, o)
				} else {
					rest = append(rest, o)
				}
			}
			cand = append(first, rest...)
		}
		if nStable > len(cand) {
			nStable = len(cand)
		}
		pf.Survivors = append(pf.Survivors, cand[:nStable]...)
		if er := NewRng(seed, uint64(run), 97); blocks > 1 && er.Chance(0.12) {
			// unusual layout: the leading block is completely empty (own PRNG stream)
			var kept []uint32
			for _, o := range pf.Survivors {
				if o>>14 != 0 {
					kept = append(kept, o)
				}
			}
			if len(kept) > 0 {
				pf.Survivors = kept
				nStable = len(kept)
			}
		}
		nf := 0.25
		if p.nearlyFull > 0 {
			nf = p.nearlyFull
		}
		if r.Chance(nf) && (!p.replicas || NewRng(seed, uint64(run), 85).Chance(0.3)) {
			// last block nearly full: concurrent inserts cross into a block that does not exist yet
			b := blocks - 1
			pf.KeepFull = []int{b}
			pf.Holes = []uint32{uint32(b)<<14 + 16383}
			if r.Chance(0.5) {
				pf.Holes = append(pf.Holes, uint32(b)<<14+16000)
			}
			if p.nearlyFull > 0 {
				// every block below is full too (otherwise the inserts land in the free slots of the
				// sparse blocks and never reach a new block)
				pf.KeepFull = nil
				for k := 0; k <= b; k++ {
					pf.KeepFull = append(pf.KeepFull, k)
				}
				if r.Chance(0.7) {
					pf.Holes = nil // exactly full: the very first insert opens the next block
				}
			}
		}
	}
	if pf != nil && len(pf.KeepFull) == 0 && r.Chance(p.farBlocks) {
		// rows far out: blocks 128 and 129 share their latch shards with blocks 0 and 1
		pf.Far = []int{128, 129}
		far := []uint32{128<<14 + 5, 128<<14 + 16383, 129 << 14, 129<<14 + 77}
		for _, o := range far {
			if r.Chance(0.7) {
				pf.Survivors = append(pf.Survivors, o)
			}
		}
		if len(g.cols) > 4 {
			g.cols = g.cols[:4] // every column gets 130 chunks: keep the collection small
			cs.Schema = append([]ColSpec{}, g.cols...)
		}
	}
	cs.Cfg.Prefill = pf
	if p.indexes {
		for i, n := 0, r.Range(0, 2); i < n; i++ {
			ix := g.genIndex()
			g.indexes = append(g.indexes, *ix)
			cs.Indexes = append(cs.Indexes, *ix)
		}
	}
	sharedKeys := keyed && !av.concurrentKeyInsert && r.Chance(p.sharedKeys)
	if sharedKeys {
		cs.Cfg.Params["shared_keys"] = 1
	}
	// set-up transaction: give every stable row a value in every column
	vc := g.valueCols()
	setup := &TxnProg{}
	if keyed {
		nk := len(g.keys)
		if sharedKeys {
			nk = nk / 2 // the other half of the alphabet is inserted concurrently by the writers
		}
		for i := 0; i < nk; i++ {
			op := Op{Kind: "insertkey", Key: g.keys[i]}
			for _, c := range vc {
				op.Writes = append(op.Writes, Write{Col: c.Name, Val: g.genVal(c)})
			}
			setup.Ops = append(setup.Ops, op)
		}
	} else {
		for i := 0; i < nStable; i++ {
			op := Op{Kind: "at", Target: Target{Mode: "abs", K: int(pf.Survivors[i])}}
			for _, c := range vc {
				// some slots stay empty: merges into a never-stored slot start from the zero value
				if p.mergeKinds && r.Chance(0.3) {
					continue
				}
				op.Writes = append(op.Writes, Write{Col: c.Name, Val: g.genVal(c)})
			}
			setup.Ops = append(setup.Ops, op)
		}
	}
	cs.Steps = []Step{{Kind: "txn", Txn: setup}}

	cs.Strategy = strategies[r.Intn(len(strategies))]
	cs.SchedSeed = r.Uint64()
	// buggify: mute a random subset of hook sites in some runs
	if r.Chance(0.3) {
		for _, k := range []int{1, 3, 4, 5, 6, 7, 21, 23} {
			if r.Chance(0.3) {
				cs.Muted = append(cs.Muted, k)
			}
		}
	}
	if p.linkDelay > 0 {
		cs.Cfg.Params["link_delay"] = []int{0, 2, 10, p.linkDelay}[r.Intn(4)]
	}

	genOps := func(role string, ti int) []Op {
		var ops []Op
		n := r.Range(1, p.maxOps)
		usedKeys := map[string]bool{}
		for i := 0; i < n; i++ {
			wts := []int{p.wUpdate, p.wMerge, p.wInsert, p.wDeleteOwn, p.wRangeRead, p.wRangeWrite, p.wPointRead, 0}
			if role == "reader" {
				wts = []int{0, 0, 0, 0, p.wRangeRead + 1, 0, p.wPointRead + 1, 0}
			}
			if keyed {
				wts[2], wts[3], wts[7] = 0, 0, p.wKey
				if role == "reader" {
					wts[7] = 0
				}
			}
			switch r.Weighted(wts) {
			case 0, 1:
				op := Op{Kind: "at", Target: Target{Mode: "stable", K: r.Intn(64)}, Yield: r.Chance(0.5)}
				nw := r.Range(1, 4)
				g.p.pMerge = 0.15
				if wts[1] > 0 && r.Intn(wts[0]+wts[1]) >= wts[0] {
					g.p.pMerge = 0.9
				}
				op.Writes = g.genWrites(nw, false)
				ops = append(ops, op)
			case 2:
				op := Op{Kind: "insert", Writes: g.genWrites(r.Range(0, 4), true)}
				if r.Chance(p.pFailInsert) {
					op.Fail = true
				}
				ops = append(ops, op)
			case 3:
				ops = append(ops, Op{Kind: "delete", Target: Target{Mode: "own", K: r.Intn(16)}})
			case 4:
				ops = append(ops, Op{Kind: "range", Yield: r.Chance(0.6), Limit: r.Intn(6)})
			case 5:
				g.p.pMerge = 0.5
				ops = append(ops, Op{Kind: "range", Yield: r.Chance(0.3), Limit: r.Range(1, 4), Writes: g.genWrites(r.Range(1, 2), false)})
			case 6:
				if fr := NewRng(seed, uint64(run), uint64(ti*64+i), 96); p.wInsert > 0 && !keyed && fr.Chance(0.25) {
					// a point read positioned on an offset that holds no row: the one the next insert is
					// handed, or one reserved by an insert in flight (own stream)
					ops = append(ops, Op{Kind: "atfree", Target: Target{K: fr.Intn(8)}, Yield: true})
					continue
				}
				ops = append(ops, Op{Kind: "at", Target: Target{Mode: "stable", K: r.Intn(64)}, Yield: true})
			case 7:
				var key string
				if sharedKeys || len(g.keys) == 0 {
					key = g.keys[r.Intn(len(g.keys))]
				} else {
					// thread-private key space for inserts (shared keys are existing stable rows)
					key = fmt.Sprintf("t%d-%d", ti, r.Intn(3))
				}
				kinds := []string{"insertkey", "upsertkey", "upsertkey", "querykey", "deletekey"}
				if sharedKeys {
					kinds = []string{"insertkey", "upsertkey", "upsertkey", "querykey"}
				}
				kind := kinds[r.Intn(len(kinds))]
				if kind == "querykey" || (kind == "upsertkey" && r.Chance(0.5)) {
					key = g.keys[r.Intn(len(g.keys))] // existing stable key: update in place
					if kind == "upsertkey" && !sharedKeys && r.Chance(0.5) {
						key = fmt.Sprintf("t%d-%d", ti, r.Intn(3))
					}
				}
				if kind == "deletekey" && !sharedKeys {
					key = fmt.Sprintf("t%d-%d", ti, r.Intn(3))
				}
				if usedKeys[key] {
					continue
				}
				usedKeys[key] = true
				op := Op{Kind: kind, Key: key}
				if kind != "deletekey" {
					g.p.pMerge = 0.3
					op.Writes = g.genWrites(r.Range(0, 3), kind == "insertkey")
				}
				if (kind == "insertkey" || kind == "upsertkey") && r.Chance(p.pFailInsert) {
					op.Fail = true
				}
				ops = append(ops, op)
			}
		}
		return ops
	}
	addThread := func(role string) {
		ti := len(cs.Threads)
		tp := ThreadProg{Role: role}
		nt := r.Range(1, p.maxTxns)
		for x := 0; x < nt; x++ {
			t := TxnProg{Ops: genOps(role, ti)}
			if role == "writer" && r.Chance(p.pAbort) {
				t.Abort = true
			}
			if t.Abort && av.rollbackInsert {
				for i := range t.Ops {
					if t.Ops[i].Kind == "insert" || t.Ops[i].Kind == "insertkey" || t.Ops[i].Kind == "upsertkey" {
						t.Ops[i].Fail = true
					}
				}
			}
			if !t.Abort && av.failInCommit {
				for i := range t.Ops {
					t.Ops[i].Fail = false
				}
			}
			tp.Txns = append(tp.Txns, t)
		}
		cs.Threads = append(cs.Threads, tp)
	}
	for i, n := 0, r.Range(p.minWriters, p.maxWriters); i < n; i++ {
		addThread("writer")
	}
	for i, n := 0, r.Range(p.minReaders, p.maxReaders); i < n; i++ {
		addThread("reader")
	}
	for i := 0; i < p.filterReaders; i++ {
		g.p.filters = true
		tp := ThreadProg{Role: "reader"}
		for x, nt := 0, r.Range(1, 3); x < nt; x++ {
			var chain []FStep
			for tries := 0; tries < 5; tries++ {
				chain = g.genFilter()
				if r.Chance(0.5) {
					// bias: a narrowing step followed by a multi-name WithUnion/Union over indexes and
					// columns the writers update (the unions read several bitmaps per block)
					names := func(k int) []string {
						var ns []string
						for j := 0; j < k; j++ {
							if len(g.indexes) > 0 && r.Chance(0.7) {
								ns = append(ns, g.indexes[r.Intn(len(g.indexes))].Name)
							} else {
								ns = append(ns, g.cols[r.Intn(len(g.cols))].Name)
							}
						}
						return ns
					}
					chain = []FStep{{Kind: []string{"with", "without"}[r.Intn(2)], Names: names(1)}, {Kind: []string{"withunion", "withunion", "union"}[r.Intn(3)], Names: names(r.Range(2, 3))}}
				}
				ok := len(chain) > 0
				for _, f := range chain {
					for _, n := range f.Names {
						ok = ok && n != "nosuch"
					}
				}
				if ok {
					break
				}
				chain = nil
			}
			fop := Op{Kind: "frange", Filter: chain}
			if ar := NewRng(seed, uint64(run), uint64(i*8+x), 98); ar.Chance(0.6) {
				// ... followed by Sum/Avg/Min/Max of a numeric column over that selection (own stream)
				var numeric []string
				for _, c := range g.cols {
					if c.Kind.Numeric() && c.Name != "expire" {
						numeric = append(numeric, c.Name)
					}
				}
				if len(numeric) > 0 {
					fop.Col = numeric[ar.Intn(len(numeric))]
					if ar.Chance(0.3) {
						fop.Filter = nil // the whole collection
					}
				}
			}
			tp.Txns = append(tp.Txns, TxnProg{Ops: []Op{fop}})
		}
		cs.Threads = append(cs.Threads, tp)
	}
	for i := 0; i < p.snapshots; i++ {
		cs.Threads = append(cs.Threads, ThreadProg{Role: "snapshot", Arg: r.Intn(4), Txns: make([]TxnProg, r.Range(1, 2))})
	}
	for i := 0; i < p.indexers; i++ {
		tp := ThreadProg{Role: "indexer"}
		var t TxnProg
		live := []string{}
		if p.schemaTriggers && r.Chance(0.7) {
			// template: several triggers on one column, then the earliest is dropped while the
			// writers are committing to that column (the registry entry of the column is edited)
			var tc []ColSpec
			for _, c := range g.cols {
				if c.Kind != KBool && c.Kind != KKey && c.Name != "expire" {
					tc = append(tc, c)
				}
			}
			if len(tc) > 0 {
				col := tc[r.Intn(len(tc))].Name
				n := r.Range(2, 4)
				for k := 0; k < n; k++ {
					t.Ops = append(t.Ops, Op{Kind: "mktrigger", Name: fmt.Sprintf("ltg%d_%d", i, k), Col: col})
				}
				t.Ops = append(t.Ops, Op{Kind: "droptrigger", Name: fmt.Sprintf("ltg%d_%d", i, r.Intn(n-1))})
				if r.Chance(0.5) {
					t.Ops = append(t.Ops, Op{Kind: "mktrigger", Name: fmt.Sprintf("ltg%d_x", i), Col: col})
				}
				tp.Txns = []TxnProg{t}
				cs.Threads = append(cs.Threads, tp)
				// the writers concentrate on that column
				for ti := range cs.Threads {
					if cs.Threads[ti].Role != "writer" {
						continue
					}
					for xi := range cs.Threads[ti].Txns {
						for oi := range cs.Threads[ti].Txns[xi].Ops {
							op := &cs.Threads[ti].Txns[xi].Ops[oi]
							if op.Kind == "at" && len(op.Writes) > 0 && r.Chance(0.7) {
								if c, ok := colOf(g.cols, col); ok {
									wr := Write{Col: col, Val: g.genVal(c), Merge: c.Kind.Mergeable() && r.Chance(0.4)}
									if wr.Merge && c.Kind.Float() {
										// float deltas stay small integers: with two NaN operands the payload of the
										// sum depends on operand order, which the model cannot mirror
										f := float64(r.Intn(64) - 32)
										if c.Kind == KFloat32 {
											wr.Val = Val{U: uint64(math.Float32bits(float32(f)))}
										} else {
											wr.Val = Val{U: math.Float64bits(f)}
										}
									}
									op.Writes = append(op.Writes, wr)
								}
							}
						}
					}
				}
				continue
			}
		}
		for k, n := 0, r.Range(1, 2+2*b2i(p.schemaTriggers)); k < n; k++ {
			switch {
			case p.schemaSorts && r.Chance(0.6):
				var sc []ColSpec
				for _, c := range g.cols {
					if c.Kind == KString || c.Kind == KEnum {
						sc = append(sc, c)
					}
				}
				if len(sc) > 0 {
					t.Ops = append(t.Ops, Op{Kind: "mksort", Sort: &SortSpec{Name: fmt.Sprintf("lsx%d_%d", i, k), Col: sc[r.Intn(len(sc))].Name}})
					continue
				}
				fallthrough
			case p.schemaTriggers && r.Chance(0.8):
				if len(live) > 0 && r.Chance(0.4) {
					j := r.Intn(len(live))
					t.Ops = append(t.Ops, Op{Kind: "droptrigger", Name: live[j]})
					live = append(live[:j:j], live[j+1:]...)
					continue
				}
				var tc []ColSpec
				for _, c := range g.cols {
					if c.Kind != KBool && c.Kind != KKey {
						tc = append(tc, c)
					}
				}
				name := fmt.Sprintf("ltg%d_%d", i, k)
				// several triggers on one column: the registry entry of the column is what the drops edit
				col := tc[r.Intn(len(tc))].Name
				if len(t.Ops) > 0 && t.Ops[len(t.Ops)-1].Kind == "mktrigger" && r.Chance(0.6) {
					col = t.Ops[len(t.Ops)-1].Col
				}
				t.Ops = append(t.Ops, Op{Kind: "mktrigger", Name: name, Col: col})
				live = append(live, name)
			default:
				if p.schemaTriggers || p.schemaSorts {
					continue // this property's schema thread sticks to its own kind of computed column
				}
				ix := g.genIndex()
				ix.Name = fmt.Sprintf("lix%d_%d", i, k)
				t.Ops = append(t.Ops, Op{Kind: "mkindex", Index: ix})
			}
		}
		tp.Txns = []TxnProg{t}
		cs.Threads = append(cs.Threads, tp)
	}
	if p.replicas {
		cs.Threads = append(cs.Threads, ThreadProg{Role: "applier"})
	}
	// schema change beside writers: an extra column "ghost" that the model does not hold.
	// Writers store into it right after a modelled store to the same row (only while it
	// exists: a store to a missing column panics by contract); a schema thread drops it, and
	// possibly re-creates and drops it again, so that transactions commit with a buffer whose
	// column is gone. Own PRNG stream.
	if gr := NewRng(seed, uint64(run), 78); p.ghost > 0 && !p.replicas && gr.Chance(p.ghost) {
		cs.Cfg.Params["ghost"] = 1
		for ti := range cs.Threads {
			if cs.Threads[ti].Role != "writer" {
				continue
			}
			for xi := range cs.Threads[ti].Txns {
				for oi := range cs.Threads[ti].Txns[xi].Ops {
					if op := &cs.Threads[ti].Txns[xi].Ops[oi]; op.Kind == "at" && len(op.Writes) > 0 && gr.Chance(0.7) {
						op.Ghost = true
					}
				}
			}
		}
		// transactions that store into the unmodelled column only: they change their block (and
		// must emit one commit) if the column still exists when the commit looks it up, and
		// change nothing (and must emit nothing) if it was dropped before
		for ti := range cs.Threads {
			if cs.Threads[ti].Role == "writer" && gr.Chance(0.6) {
				at := gr.Intn(len(cs.Threads[ti].Txns) + 1)
				g1 := TxnProg{Ops: []Op{{Kind: "ghostonly", Target: Target{Mode: "stable", K: gr.Intn(64)}}}}
				txns := append([]TxnProg{}, cs.Threads[ti].Txns[:at]...)
				txns = append(txns, g1)
				cs.Threads[ti].Txns = append(txns, cs.Threads[ti].Txns[at:]...)
			}
		}
		t := TxnProg{Ops: []Op{{Kind: "dropghost"}}}
		if gr.Chance(0.4) {
			t.Ops = append(t.Ops, Op{Kind: "mkghost"}, Op{Kind: "dropghost"})
		}
		cs.Threads = append(cs.Threads, ThreadProg{Role: "indexer", Txns: []TxnProg{t}})
	}
	// fault: a quarter of the failing transactions panic instead of returning an error (own stream)
	pr := NewRng(seed, uint64(run), 91)
	for ti := range cs.Threads {
		for xi := range cs.Threads[ti].Txns {
			if t := &cs.Threads[ti].Txns[xi]; t.Abort && pr.Chance(0.25) {
				t.Panic = true
			}
		}
	}
	// buggify: in half of the runs the mutex points of the instrumented build do not yield
	// (unless the mutex is held), so the coarse interleavings of the hand-placed hooks keep
	// their share of the budget. Own PRNG stream.
	if NewRng(seed, uint64(run), 79).Chance(0.5) {
		cs.Muted = append(cs.Muted, int(ptMuLock))
	}
	// fault "slow node": one thread is stalled for a number of scheduler steps at a protocol
	// point, so that whole transactions of the others fall into a window that is normally a
	// few steps wide (a snapshot between opening its recorder and closing it, a commit
	// between two of its blocks or while it holds a latch). Own PRNG stream: the rest of the
	// case does not depend on whether a stall was drawn.
	sr := NewRng(seed, uint64(run), 77)
	if sr.Chance(p.stallRate()) {
		type site struct {
			role string
			at   uint8
			arg  int
		}
		var sites []site
		if p.snapshots > 0 {
			// recorder opened / before a block is read (the block count is fixed by then) / state
			// written, recorder still open (twice the weight) / recorder closed, log not yet copied
			sites = append(sites, site{"snapshot", 9, 2}, site{"snapshot", 1, 0}, site{"snapshot", 9, 3}, site{"snapshot", 9, 3}, site{"snapshot", 9, 4})
		}
		sites = append(sites, site{"", 2, 0}, site{"", 3, 0}, site{"", 6, 0}, site{"", 4, 0}, site{"", 7, 0})
		st := sites[sr.Intn(len(sites))]
		cs.Faults = append(cs.Faults, Fault{Kind: "stall", Role: st.role, At: int(st.at), Arg: st.arg, N: sr.Range(4, 60)})
	}
	return cs
}

func (p concProfile) stallRate() float64 {
	if p.stall > 0 {
		return p.stall
	}
	return 0.25
}

// genTTL materialises a C17 case: stable rows, writer threads that set and extend
// time-to-lives and update unrelated columns of the same rows, readers, and the clock
// pseudo-thread; the collection's own vacuum goroutine joins as a simulated thread.
func genTTL(seed uint64, run int) *Case {
	r := NewRng(seed, uint64(run), 4)
	g := &gen{r: r}
	g.p = seqProfile{maxCols: 3, pMerge: 0.2}
	cs := &Case{Prop: "C17", World: "ttl", Seed: seed, Run: run}
	g.cs = cs
	cs.Cfg.Capacity = []int{64, 1024, 20000}[r.Intn(3)]
	cs.Cfg.Avoid = knownAvoid("C17", seed, run).list()
	interval := []time.Duration{time.Millisecond, 10 * time.Millisecond, 100 * time.Millisecond, time.Second, 10 * time.Second}[r.Intn(5)]
	cs.Cfg.Params = map[string]int{"vacuum_ns": int(interval)}
	g.genSchema()
	g.cols = g.cols[:0:0]
	g.cols = append(g.cols, ColSpec{Name: "expire", Kind: KInt64}, ColSpec{Name: "a", Kind: KInt64}, ColSpec{Name: "s", Kind: KString})
	cs.Schema = append([]ColSpec{}, g.cols...)
	n := r.Range(3, 9)
	blocks := 1
	if r.Chance(0.3) {
		blocks = 2
	}
	pf := &Prefill{Blocks: blocks}
	var cand []uint32
	for _, o := range strategicOffsets {
		if int(o>>14) < blocks {
			cand = append(cand, o)
		}
	}
	for i := len(cand) - 1; i > 0; i-- {
		j := r.Intn(i + 1)
		cand[i], cand[j] = cand[j], cand[i]
	}
	if n > len(cand) {
		n = len(cand)
	}
	pf.Survivors = append(pf.Survivors, cand[:n]...)
	cs.Cfg.Prefill = pf
	setup := &TxnProg{}
	for i := 0; i < n; i++ {
		setup.Ops = append(setup.Ops, Op{Kind: "at", Target: Target{Mode: "abs", K: int(pf.Survivors[i])},
			Writes: []Write{{Col: "a", Val: Val{U: uint64(i)}}, {Col: "s", Val: strVal(fmt.Sprintf("row%d", i))}}})
	}
	cs.Steps = []Step{{Kind: "txn", Txn: setup}}
	cs.Strategy = strategies[r.Intn(len(strategies))]
	cs.SchedSeed = r.Uint64()
	ttls := []time.Duration{interval / 2, interval, interval + interval/2, 2 * interval, 5 * interval, 100 * interval, time.Hour}
	vr := NewRng(seed, uint64(run), 84) // API flavour of the time-to-live writes (own stream)
	insertFlavour := run%3 == 2
	if insertFlavour {
		// insert flavour: threads insert rows with and without a time-to-live, delete and read
		// their own rows and never update existing rows (a late write to a row the cleanup just
		// deleted would leave stale data for the next occupant of the offset, which is C11's
		// subject); in some runs block 0 is full so that inserts open a new block during a pass
		cs.Cfg.Params["insert_flavour"] = 1
		if r.Chance(0.5) {
			pf.Blocks, pf.Survivors = 1, nil
			pf.KeepFull = []int{0}
			pf.Holes = []uint32{16383}
			setup.Ops = nil
			if NewRng(seed, uint64(run), 90).Chance(0.5) {
				// every row of the full block carries a far deadline: the rows that expire sit
				// behind a whole block of rows that do not (own stream)
				cs.Cfg.Params["ttl_full_ns"] = int(time.Hour)
			}
		}
	}
	for ti, nw := 0, r.Range(1, 3); ti < nw; ti++ {
		tp := ThreadProg{Role: "writer"}
		for x, nt := 0, r.Range(1, 4); x < nt; x++ {
			var t TxnProg
			for o, no := 0, r.Range(1, 3); o < no; o++ {
				if insertFlavour {
					switch pick := r.Intn(10); {
					case pick < 6:
						op := Op{Kind: "insert", Writes: []Write{{Col: "a", Val: Val{U: r.Uint64()}}, {Col: "s", Val: strVal(fmt.Sprintf("i%d", r.Intn(1000)))}}}
						if r.Chance(0.6) {
							op.Writes = append(op.Writes, Write{TTL: int64(ttls[r.Intn(len(ttls))])})
						}
						_ = vr
						t.Ops = append(t.Ops, op)
					case pick < 8:
						t.Ops = append(t.Ops, Op{Kind: "delete", Target: Target{Mode: "own-nottl", K: r.Intn(16)}})
					default:
						t.Ops = append(t.Ops, Op{Kind: "at", Target: Target{Mode: "own", K: r.Intn(16)}, Yield: r.Chance(0.3)})
					}
					continue
				}
				k := r.Intn(64)
				op := Op{Kind: "at", Target: Target{Mode: "stable", K: k}, Yield: r.Chance(0.3)}
				// a third of the stable rows never get a time-to-live: they must survive every pass
				never := k%3 == 0
				switch pick := r.Intn(10); {
				case pick < 4 && !never:
					op.Writes = append(op.Writes, Write{TTL: int64(ttls[r.Intn(len(ttls))]), Via: vr.Intn(2)})
					if op.Writes[len(op.Writes)-1].Via == 1 {
						op.Yield = true // reads with yields between obtaining the accessor and using it
					}
				case pick < 6 && !never:
					if cr := NewRng(seed, uint64(run), uint64(9100+ti*64+x*8+o)); cr.Chance(0.35) {
						// the time-to-live is taken away again (zero or negative duration; own stream)
						op.Writes = append(op.Writes, Write{Clear: true, TTL: -int64(cr.Intn(2)) * int64(interval), Via: cr.Intn(2)})
						if op.Writes[0].Via == 1 {
							op.Yield = true
						}
						break
					}
					op.Writes = append(op.Writes, Write{Extend: int64(ttls[r.Intn(len(ttls))])})
				case pick < 7 && !never:
					op = Op{Kind: "delete", Target: Target{Mode: "stable", K: k}}
				default:
					op.Writes = append(op.Writes, Write{Col: "a", Val: Val{U: r.Uint64()}, Merge: r.Chance(0.3)})
					if r.Chance(0.4) {
						op.Writes = append(op.Writes, Write{Col: "s", Val: strVal(fmt.Sprintf("v%d", r.Intn(1000)))})
					}
				}
				t.Ops = append(t.Ops, op)
			}
			tp.Txns = append(tp.Txns, t)
		}
		cs.Threads = append(cs.Threads, tp)
	}
	if r.Chance(0.5) {
		tp := ThreadProg{Role: "reader"}
		for x, nt := 0, r.Range(1, 3); x < nt; x++ {
			tp.Txns = append(tp.Txns, TxnProg{Ops: []Op{{Kind: "range", Yield: r.Chance(0.5), Limit: r.Intn(5)}, {Kind: "at", Target: Target{Mode: "stable", K: r.Intn(64)}, Yield: true}}})
		}
		cs.Threads = append(cs.Threads, tp)
	}
	if fr := NewRng(seed, uint64(run), 89); fr.Chance(0.3) {
		// fault: a snapshot whose destination fails, taken beside the cleanup; afterwards rows
		// must go on expiring (own PRNG stream)
		cs.Threads = append(cs.Threads, ThreadProg{Role: "failsnap", Arg: fr.Intn(4)})
	}
	cs.Threads = append(cs.Threads, ThreadProg{Role: "clock", Arg: r.Range(4, 14)})
	return cs
}

// genRace materialises a C18 case.
func genRace(seed uint64, run int) *Case {
	r := NewRng(seed, uint64(run), 6)
	g := &gen{r: r}
	g.p = seqProfile{maxCols: 6, pMerge: 0.3, pKeyCol: 0.15}
	cs := &Case{Prop: "C18", World: "race", Seed: seed, Run: run}
	g.cs = cs
	cs.Cfg.Capacity = []int{1, 64, 1024, 20000}[r.Intn(4)]
	av := knownAvoid("C18", seed, run)
	g.av = av
	cs.Cfg.Avoid = av.list()
	g.genSchema()
	if av.enumBesideReaders {
		// known finding "the enum string table is appended beside readers": only some runs have enum columns
		kept := g.cols[:0:0]
		for _, c := range g.cols {
			if c.Kind != KEnum {
				kept = append(kept, c)
			}
		}
		g.cols = kept
	}
	cs.Schema = append([]ColSpec{}, g.cols...)
	keyed := g.hasKey()
	vc := g.valueCols()
	// layout: a block that is full except for one or two holes, so that inserts grow the
	// collection into a new block while readers and snapshots are active
	blocks := r.Range(1, 2)
	pf := &Prefill{Blocks: blocks}
	nStable := r.Range(2, 6)
	var cand []uint32
	for _, o := range strategicOffsets {
		if int(o>>14) < blocks {
			cand = append(cand, o)
		}
	}
	for i := len(cand) - 1; i > 0; i-- {
		j := r.Intn(i + 1)
		cand[i], cand[j] = cand[j], cand[i]
	}
	pf.Survivors = append(pf.Survivors, cand[:nStable]...)
	farLayout := false
	if fr := NewRng(seed, uint64(run), 99); !keyed && fr.Chance(0.06) {
		// rows far out: blocks 128 and 129 share their latch shards with blocks 0 and 1, so two
		// multi-block commits can meet on the same two latches coming from different blocks
		// (own PRNG stream; few columns: every column gets 130 chunks)
		farLayout = true
		pf.Blocks = 2
		pf.Far = []int{128, 129}
		pf.Survivors = []uint32{3, 16384 + 9, 128<<14 + 5, 129<<14 + 77}
		nStable = len(pf.Survivors)
		if len(g.cols) > 3 {
			g.cols = g.cols[:3]
			cs.Schema = append([]ColSpec{}, g.cols...)
			vc = g.valueCols()
		}
	}
	grow := !keyed && !farLayout && r.Chance(0.6) && !av.blockGrowth
	if av.blockGrowth {
		// known finding "columns and bitmaps grow beside readers": unless this run explores it,
		// everything is pre-sized and no insert opens a new block
		cs.Cfg.Capacity = 70000
	}
	if grow {
		b := blocks - 1
		pf.KeepFull = []int{b}
		pf.Holes = []uint32{uint32(b)<<14 + 16383}
	}
	if keyed {
		pf = nil
	}
	cs.Cfg.Prefill = pf
	for i, n := 0, r.Intn(3); i < n; i++ {
		ix := g.genIndex()
		g.indexes = append(g.indexes, *ix)
		cs.Indexes = append(cs.Indexes, *ix)
	}
	setup := &TxnProg{}
	if keyed {
		for i := 0; i < len(g.keys); i++ {
			op := Op{Kind: "insertkey", Key: g.keys[i]}
			for _, c := range vc {
				op.Writes = append(op.Writes, Write{Col: c.Name, Val: g.genVal(c)})
			}
			setup.Ops = append(setup.Ops, op)
		}
	} else {
		for i := 0; i < nStable; i++ {
			op := Op{Kind: "at", Target: Target{Mode: "abs", K: int(pf.Survivors[i])}}
			for _, c := range vc {
				op.Writes = append(op.Writes, Write{Col: c.Name, Val: g.genVal(c)})
			}
			setup.Ops = append(setup.Ops, op)
		}
	}
	cs.Steps = []Step{{Kind: "txn", Txn: setup}}
	cs.Strategy = []string{"uniform", "sticky", "rr"}[r.Intn(3)]
	cs.SchedSeed = r.Uint64()
	if NewRng(seed, uint64(run), 79).Chance(0.5) {
		cs.Muted = append(cs.Muted, int(ptMuLock))
	}
	// a sorted index that readers iterate while writers commit to the sorted column (own stream)
	sortCol := ""
	if sr := NewRng(seed, uint64(run), 92); sr.Chance(0.5) {
		for _, c := range vc {
			if c.Kind == KString || c.Kind == KEnum {
				sortCol = c.Name
				cs.Steps = append(cs.Steps, Step{Kind: "createsort", Sort: &SortSpec{Name: "rsx", Col: c.Name}})
				break
			}
		}
	}
	colName := func() string { return vc[r.Intn(len(vc))].Name }
	anyName := func() string {
		if len(g.indexes) > 0 && r.Chance(0.5) {
			return g.indexes[r.Intn(len(g.indexes))].Name
		}
		return colName()
	}
	roles := []string{"writer", "writer", "reader", "reader", "snapshot", "indexer"}
	nth := r.Range(3, 6)
	for ti := 0; ti < nth; ti++ {
		role := roles[r.Intn(len(roles))]
		if role == "indexer" && av.schemaChange {
			role = "reader" // known finding "the column registry is modified in place": only explored in some runs
		}
		if ti == 0 {
			role = "writer"
		}
		if ti == 1 {
			role = "reader"
		}
		tp := ThreadProg{Role: role}
		for x, nt := 0, r.Range(1, 3); x < nt; x++ {
			var t TxnProg
			for o, no := 0, r.Range(1, 3); o < no; o++ {
				switch role {
				case "writer":
					switch r.Intn(6) {
					case 0, 1:
						op := Op{Kind: "insert", Writes: g.genWrites(r.Range(1, 4), true)}
						if keyed {
							op.Key = fmt.Sprintf("t%d-%d", ti, r.Intn(3))
						}
						t.Ops = append(t.Ops, op)
					case 2, 3:
						t.Ops = append(t.Ops, Op{Kind: "at", Target: Target{Mode: "stable", K: r.Intn(64)}, Writes: g.genWrites(r.Range(1, 3), false), Yield: r.Chance(0.3)})
					case 4:
						if !keyed {
							t.Ops = append(t.Ops, Op{Kind: "delete", Target: Target{Mode: "own", K: r.Intn(8)}})
						}
					default:
						t.Ops = append(t.Ops, Op{Kind: "range", Limit: 3, Writes: g.genWrites(1, false)})
					}
				case "reader":
					switch r.Intn(6) {
					case 0, 1:
						t.Ops = append(t.Ops, Op{Kind: "at", Target: Target{Mode: "stable", K: r.Intn(64)}, Yield: r.Chance(0.5)})
					case 2:
						var f []FStep
						c := vc[r.Intn(len(vc))]
						switch {
						case c.Kind.Textual() && c.Kind != KRecord:
							f = append(f, FStep{Kind: "withstring", Names: []string{c.Name}, Pred: &PredSpec{Fam: "spre", S: "m"}})
						case c.Kind.Numeric():
							f = append(f, FStep{Kind: "withfloat", Names: []string{c.Name}, Pred: &PredSpec{F: 0}})
						default:
							f = append(f, FStep{Kind: "withvalue", Names: []string{c.Name}, Pred: &PredSpec{Fam: "seq", S: "a"}})
						}
						t.Ops = append(t.Ops, Op{Kind: "range", Filter: f, Yield: r.Chance(0.5)})
					case 3:
						t.Ops = append(t.Ops, Op{Kind: "range", Filter: []FStep{{Kind: []string{"with", "without", "union"}[r.Intn(3)], Names: []string{anyName()}}}, Yield: r.Chance(0.5)})
					case 4:
						t.Ops = append(t.Ops, Op{Kind: "agg", Col: colName()})
					default:
						if keyed {
							t.Ops = append(t.Ops, Op{Kind: "querykey", Key: g.keys[r.Intn(len(g.keys))]})
						} else {
							t.Ops = append(t.Ops, Op{Kind: "count"})
						}
					}
				case "snapshot":
					t.Ops = append(t.Ops, Op{Kind: []string{"snapshot", "snapshot", "restore"}[r.Intn(3)]})
				case "indexer":
					op := Op{Kind: []string{"mkindex", "mkindex", "mktrigger"}[r.Intn(3)], Col: colName()}
					if ir := NewRng(seed, uint64(run), uint64(ti*64+x*8+o), 82); op.Kind == "mkindex" && len(g.indexes) > 0 && ir.Chance(0.3) {
						op.Name = g.indexes[ir.Intn(len(g.indexes))].Name // unusual input: an index over an index
					}
					t.Ops = append(t.Ops, op)
				}
			}
			if role == "writer" && r.Chance(0.1) {
				t.Abort = true
			}
			tp.Txns = append(tp.Txns, t)
		}
		cs.Threads = append(cs.Threads, tp)
	}
	for _, c := range vc {
		if er := NewRng(seed, uint64(run), 100); c.Kind == KEnum && er.Chance(0.5) {
			// a string filter over the enum column beside a writer that stores a string the column
			// has never seen (the string table grows while it is being read)
			cs.Threads = append(cs.Threads,
				ThreadProg{Role: "reader", Txns: []TxnProg{{Ops: []Op{{Kind: "range", Filter: []FStep{{Kind: "withstring", Names: []string{c.Name}, Pred: &PredSpec{Fam: "spre", S: "m"}}}, Yield: er.Chance(0.5)}}}}},
				ThreadProg{Role: "writer", Txns: []TxnProg{{Ops: []Op{{Kind: "at", Target: Target{Mode: "stable", K: er.Intn(64)}, Writes: []Write{{Col: c.Name, Val: strVal(fmt.Sprintf("fresh-%d-%d", run, er.Intn(1000)))}}}}}}})
			break
		}
	}
	if farLayout && len(vc) > 0 {
		// two writers whose first transactions touch blocks {1, 128} and {0, 129}: the same two
		// latch shards, reached in opposite order when going by block number
		w1 := Write{Col: vc[0].Name, Val: g.genVal(vc[0])}
		w2 := Write{Col: vc[0].Name, Val: g.genVal(vc[0])}
		ta := TxnProg{Ops: []Op{{Kind: "at", Target: Target{Mode: "stable", K: 1}, Writes: []Write{w1}}, {Kind: "at", Target: Target{Mode: "stable", K: 2}, Writes: []Write{w1}}}}
		tb := TxnProg{Ops: []Op{{Kind: "at", Target: Target{Mode: "stable", K: 0}, Writes: []Write{w2}}, {Kind: "at", Target: Target{Mode: "stable", K: 3}, Writes: []Write{w2}}}}
		cs.Threads[0].Txns = append([]TxnProg{ta}, cs.Threads[0].Txns...)
		cs.Threads = append(cs.Threads, ThreadProg{Role: "writer", Txns: []TxnProg{tb}})
	}
	if sortCol != "" {
		ar := NewRng(seed, uint64(run), 93)
		for ti := range cs.Threads {
			switch cs.Threads[ti].Role {
			case "reader":
				if ar.Chance(0.6) {
					cs.Threads[ti].Txns = append(cs.Threads[ti].Txns, TxnProg{Ops: []Op{{Kind: "ascend", Col: "rsx", Yield: ar.Chance(0.5)}}})
				}
			case "writer":
				// the writers also store into the sorted column
				if c, ok := colOf(g.cols, sortCol); ok && ar.Chance(0.7) {
					cs.Threads[ti].Txns = append(cs.Threads[ti].Txns, TxnProg{Ops: []Op{{Kind: "at", Target: Target{Mode: "stable", K: ar.Intn(64)}, Writes: []Write{{Col: sortCol, Val: g.genVal(c)}}}}})
				}
			}
		}
	}
	return cs
}
