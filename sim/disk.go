package colsim

import (
	"errors"
	"io"
)

var (
	errDiskWrite = errors.New("simdisk: injected write error")
	errDiskRead  = errors.New("simdisk: injected read error")
)

// WritePlan is the fault plan of a SimFile's write side.
type WritePlan struct {
	FailAtCall int  // fail the k-th Write call (1-based); 0 = never
	FailAtByte int  // fail once this many bytes were accepted: the write that crosses it is short; <0 = never
	Once       bool // fail only the first time the condition holds, then heal
	fired      bool
	ShortNoErr bool // the crossing write returns n<len(p) with a nil error (a writer that breaks its contract silently), once
}

// SimFile is the simulated disk file: an in-memory byte stream that records every write
// call and injects the planned faults.
type SimFile struct {
	Data   []byte
	Writes []int // length accepted by each Write call, in order
	Plan   WritePlan
	calls  int
	Fired  int // how many injected write errors were actually returned
	// OnWrite, if set, is called at the start of every Write (a slow destination: the
	// simulated thread yields to the scheduler in the middle of its output)
	OnWrite func()
	closed bool
}

func NewSimFile() *SimFile { return &SimFile{Plan: WritePlan{FailAtByte: -1}} }

func (f *SimFile) Write(p []byte) (int, error) {
	if f.OnWrite != nil {
		f.OnWrite()
	}
	f.calls++
	pl := &f.Plan
	healed := (pl.Once || pl.ShortNoErr) && pl.fired
	if !healed && pl.FailAtCall > 0 && f.calls >= pl.FailAtCall {
		pl.fired = true
		f.Fired++
		f.Writes = append(f.Writes, 0)
		return 0, errDiskWrite
	}
	if !healed && pl.FailAtByte >= 0 && len(f.Data)+len(p) > pl.FailAtByte {
		n := pl.FailAtByte - len(f.Data)
		if n < 0 {
			n = 0
		}
		f.Data = append(f.Data, p[:n]...)
		f.Writes = append(f.Writes, n)
		pl.fired = true
		f.Fired++
		if pl.ShortNoErr {
			return n, nil // a writer that takes part of the data and says nothing (once, then it heals)
		}
		return n, errDiskWrite
	}
	f.Data = append(f.Data, p...)
	f.Writes = append(f.Writes, len(p))
	return len(p), nil
}

// Boundaries returns the stream offsets at which a write call ended.
func (f *SimFile) Boundaries() []int {
	out := make([]int, 0, len(f.Writes))
	at := 0
	for _, n := range f.Writes {
		at += n
		out = append(out, at)
	}
	return out
}

// SimReader delivers a byte stream in seeded chunk sizes (legal io.Reader behaviour: any
// n>0 up to len(p)), optionally failing or ending early.
type SimReader struct {
	data     []byte
	pos      int
	rng      *Rng
	maxChunk int // 0 = whatever the caller asks for
	ErrAt    int // return errDiskRead once pos reaches this offset; <0 = never
	Reads    int
	Fired    int
}

func NewSimReader(data []byte, rng *Rng, maxChunk int) *SimReader {
	return &SimReader{data: data, rng: rng, maxChunk: maxChunk, ErrAt: -1}
}

func (r *SimReader) Read(p []byte) (int, error) {
	r.Reads++
	if len(p) == 0 {
		return 0, nil
	}
	if r.ErrAt >= 0 && r.pos >= r.ErrAt {
		r.Fired++
		return 0, errDiskRead
	}
	if r.pos >= len(r.data) {
		return 0, io.EOF
	}
	n := len(p)
	if r.maxChunk > 0 && n > r.maxChunk {
		n = r.maxChunk
	}
	if r.rng != nil && n > 1 {
		n = 1 + r.rng.Intn(n)
	}
	if rem := len(r.data) - r.pos; n > rem {
		n = rem
	}
	if r.ErrAt >= 0 && r.pos+n > r.ErrAt {
		n = r.ErrAt - r.pos
	}
	copy(p, r.data[r.pos:r.pos+n])
	r.pos += n
	return n, nil
}
