package colsim

import (
	"fmt"
	"sort"

	"github.com/kelindar/column"
)

// Violation is an oracle failure. Sig classifies it (used to match known findings and to
// keep the same failure while minimising); Detail is for humans.
type Violation struct {
	Sig    string `json:"sig"`
	Detail string `json:"detail"`
}

func (v *Violation) Error() string { return v.Sig + ": " + v.Detail }

func violation(sig, format string, args ...any) *Violation {
	return &Violation{Sig: sig, Detail: fmt.Sprintf(format, args...)}
}

// reader flavours: every way the library exposes a stored value
const (
	flRow = iota // Row.Int(...) etc. inside QueryAt
	flTxn        // txn.Int(...).Get() inside Range
	flAny        // Row.Any(...)
	flCount
)

var flavourName = [...]string{"row", "txn", "any"}

// readCol reads one column of the row the transaction is positioned on.
func readCol(txn *column.Txn, r column.Row, c ColSpec, flavour int) (MVal, bool) {
	switch flavour {
	case flAny:
		if c.Kind == KKey {
			s, ok := r.Key()
			return MVal{S: s}, ok
		}
		v, ok := r.Any(c.Name)
		if !ok {
			return MVal{}, false
		}
		switch c.Kind {
		case KBool:
			b, _ := v.(bool)
			return MVal{U: b2u(b)}, b
		case KString, KEnum:
			s, _ := v.(string)
			return MVal{S: s}, true
		case KRecord:
			rec, isRec := v.(*Rec)
			if !isRec {
				return MVal{S: fmt.Sprintf("<%T>", v)}, true
			}
			b, _ := rec.MarshalBinary()
			return MVal{S: string(b)}, true
		}
		u, isT := nums[c.Kind].fromAny(v)
		if !isT {
			return MVal{U: 0xdeadbeef}, true
		}
		return MVal{U: u}, true
	case flTxn:
		switch c.Kind {
		case KBool:
			b := txn.Bool(c.Name).Get()
			return MVal{U: b2u(b)}, b
		case KString:
			s, ok := txn.String(c.Name).Get()
			return MVal{S: s}, ok
		case KEnum:
			s, ok := txn.Enum(c.Name).Get()
			return MVal{S: s}, ok
		case KKey:
			s, ok := txn.Key().Get()
			return MVal{S: s}, ok
		case KRecord:
			v, ok := txn.Record(c.Name).Get()
			if !ok {
				return MVal{}, false
			}
			b, _ := v.(*Rec).MarshalBinary()
			return MVal{S: string(b)}, true
		}
		u, ok := nums[c.Kind].tget(txn, c.Name)
		return MVal{U: u}, ok
	}
	switch c.Kind {
	case KBool:
		b := r.Bool(c.Name)
		return MVal{U: b2u(b)}, b
	case KString:
		s, ok := r.String(c.Name)
		return MVal{S: s}, ok
	case KEnum:
		s, ok := r.Enum(c.Name)
		return MVal{S: s}, ok
	case KKey:
		s, ok := r.Key()
		return MVal{S: s}, ok
	case KRecord:
		v, ok := r.Record(c.Name)
		if !ok {
			return MVal{}, false
		}
		b, _ := v.(*Rec).MarshalBinary()
		return MVal{S: string(b)}, true
	}
	u, ok := nums[c.Kind].get(r, c.Name)
	return MVal{U: u}, ok
}

func b2u(b bool) uint64 {
	if b {
		return 1
	}
	return 0
}

// sameVal compares an observation with the model. For bool columns "absent" and false
// are the same observation.
func sameVal(k Kind, got MVal, gotOK bool, want MVal, wantOK bool) bool {
	if k == KBool {
		return (gotOK && got.U != 0) == (wantOK && want.U != 0)
	}
	if gotOK != wantOK {
		return false
	}
	if !gotOK {
		return true
	}
	if k.Textual() {
		return got.S == want.S
	}
	return got.U == want.U
}

func showOpt(k Kind, v MVal, ok bool) string {
	if !ok {
		return "absent"
	}
	return v.show(k)
}

func blockClass(off uint32) string {
	if off>>14 == 0 {
		return "block0"
	}
	return "block>0"
}

// liveOffsets lists the offsets a plain Range visits, in visiting order.
func liveOffsets(c *column.Collection) (out []uint32) {
	c.Query(func(txn *column.Txn) error {
		return txn.Range(func(idx uint32) { out = append(out, idx) })
	})
	return
}

// CompareDump reads the whole observable state of a collection through every reader
// flavour and compares it with the model. keyProbe lists keys that must not resolve
// unless the model holds them. It returns the first difference.
func CompareDump(c *column.Collection, m *Model, keyProbe []string, rows []uint32) *Violation {
	// Count
	wantLive := m.Live()
	if got, want := c.Count(), len(wantLive)+len(m.Reserved); got != want {
		return violation("count", "Count()=%d, model has %d live rows (+%d reserved)", got, len(wantLive), len(m.Reserved))
	}
	// Live set and visiting order
	got := liveOffsets(c)
	want := wantLive
	if len(m.Reserved) > 0 {
		want = append([]uint32{}, wantLive...)
		for o := range m.Reserved {
			want = append(want, o)
		}
		sort.Slice(want, func(i, j int) bool { return want[i] < want[j] })
	}
	if v := compareOffsets("live-set", got, want); v != nil {
		return v
	}
	if rows == nil {
		rows = wantLive
	}
	// Values through each flavour
	for fl := 0; fl < flCount; fl++ {
		var bad *Violation
		check := func(txn *column.Txn, r column.Row, off uint32) {
			if bad != nil {
				return
			}
			for _, col := range m.Cols {
				gv, gok := readCol(txn, r, col, fl)
				wv, wok := m.Get(off, col.Name)
				if !sameVal(col.Kind, gv, gok, wv, wok) {
					class := "value"
					if gok != wok {
						class = "presence"
					}
					bad = violation(fmt.Sprintf("%s/%s/%s", class, col.Kind, blockClass(off)),
						"row %d column %q (%s%s) via %s reader: got %s, model %s", off, col.Name, col.Kind, mergeTag(col),
						flavourName[fl], showOpt(col.Kind, gv, gok), showOpt(col.Kind, wv, wok))
					return
				}
			}
			for _, ix := range m.Indexes {
				var g bool
				if fl == flTxn {
					g = txn.Bool(ix.Name).Get()
				} else {
					g = r.Bool(ix.Name)
				}
				if w := m.IndexHas(ix, off); g != w {
					bad = violation(fmt.Sprintf("index/%s/%s", ix.Pred.Fam, blockClass(off)),
						"row %d index %q (%s on %q): Row.Bool=%v, predicate on model value=%v", off, ix.Name, ix.Pred, ix.Col, g, w)
					return
				}
			}
		}
		if fl == flTxn {
			set := map[uint32]bool{}
			for _, o := range rows {
				set[o] = true
			}
			c.Query(func(txn *column.Txn) error {
				return txn.Range(func(idx uint32) {
					if set[idx] {
						if _, ok := m.Rows[idx]; ok {
							check(txn, column.Row{}, idx)
						}
					}
				})
			})
		} else {
			for _, off := range rows {
				if _, ok := m.Rows[off]; !ok {
					continue
				}
				off := off
				c.Query(func(txn *column.Txn) error {
					return txn.QueryAt(off, func(r column.Row) error {
						if r.Index() != off {
							bad = violation("cursor", "QueryAt(%d) positioned the row at %d", off, r.Index())
						}
						check(txn, r, off)
						return nil
					})
				})
			}
		}
		if bad != nil {
			return bad
		}
	}
	// Index selections
	for _, ix := range m.Indexes {
		var sel []uint32
		c.Query(func(txn *column.Txn) error {
			return txn.With(ix.Name).Range(func(idx uint32) { sel = append(sel, idx) })
		})
		var wantSel []uint32
		for _, o := range wantLive {
			if m.IndexHas(ix, o) {
				wantSel = append(wantSel, o)
			}
		}
		if v := compareOffsets("index/"+ix.Pred.Fam, sel, wantSel); v != nil {
			v.Detail = fmt.Sprintf("With(%q) [%s on %q]: %s", ix.Name, ix.Pred, ix.Col, v.Detail)
			return v
		}
	}
	// Key lookups
	if kc, ok := m.KeyCol(); ok {
		seen := map[string]uint32{}
		for _, off := range wantLive {
			if v, ok := m.Rows[off][kc.Name]; ok {
				if prev, dup := seen[v.S]; dup {
					return violation("key/duplicate", "model rows %d and %d both hold key %q", prev, off, v.S)
				}
				seen[v.S] = off
			}
		}
		probe := append([]string{}, keyProbe...)
		for k := range seen {
			probe = append(probe, k)
		}
		sort.Strings(probe)
		for i, k := range probe {
			if i > 0 && probe[i-1] == k {
				continue
			}
			at, found := uint32(0), false
			err := c.QueryKey(k, func(r column.Row) error { at, found = r.Index(), true; return nil })
			wantAt, wantFound := seen[k]
			switch {
			case found != wantFound && wantFound:
				return violation("key/lookup-missing", "QueryKey(%q): %v, model has it at row %d", k, err, wantAt)
			case found != wantFound:
				return violation("key/lookup-stale", "QueryKey(%q) reached row %d, model has no live row with that key", k, at)
			case found && at != wantAt:
				return violation("key/lookup-wrong-row", "QueryKey(%q) reached row %d, model has it at row %d", k, at, wantAt)
			case (err == nil) != found:
				return violation("key/lookup-error", "QueryKey(%q) err=%v found=%v", k, err, found)
			}
		}
	}
	return nil
}

func mergeTag(c ColSpec) string {
	if c.Merge == "" {
		return ""
	}
	return "," + c.Merge
}

func compareOffsets(class string, got, want []uint32) *Violation {
	for i := 1; i < len(got); i++ {
		if got[i] <= got[i-1] {
			return violation(class+"/order", "offsets not strictly ascending: ...%d,%d...", got[i-1], got[i])
		}
	}
	gi, wi := 0, 0
	for gi < len(got) || wi < len(want) {
		switch {
		case wi >= len(want) || (gi < len(got) && got[gi] < want[wi]):
			return violation(class+"/extra", "offset %d selected but not expected (got %d rows, want %d)", got[gi], len(got), len(want))
		case gi >= len(got) || want[wi] < got[gi]:
			return violation(class+"/missing", "offset %d expected but not selected (got %d rows, want %d)", want[wi], len(got), len(want))
		}
		gi++
		wi++
	}
	return nil
}
