package colsim

import (
	"errors"
	"fmt"
	"sort"
	"time"

	"github.com/kelindar/column"
)

const vacuumNever = 1000 * time.Hour

var (
	errAbort      = errors.New("sim: abort")
	errInsertFail = errors.New("sim: failing insert")
	errStop       = errors.New("sim: stopped")
)

// txnCtx is the execution context of one transaction body.
type txnCtx struct {
	w    *World
	c    *column.Collection
	txn  *column.Txn
	mt   *MTxn
	mine []uint32
	// whether reads inside this transaction are compared with the committed model state
	checkReads bool
	// whether selections (Range/Count/filters) are compared exactly (single-client only)
	exact      bool
	sel        sel  // the model's view of the transaction's selection (exact worlds)
	first      bool // no filter call has been made yet (a leading Union intersects)
	inited     bool
	cleared    bool // a filter on a missing column truncated the selection
	filtered   bool // some filter step ran in this transaction
	thread     int
	abort      bool // the body will end in an error
	ttlPending bool
	aggGot     string                          // result of the aggregate call being judged (report text)
	ttlAcc     interface{ Set(time.Duration) } // txn.TTL() accessor obtained at the start of the current row operation (C17)
}

// runTxn executes one transaction program on the primary and mirrors it into the model.
func (w *World) runTxn(prog *TxnProg, exact bool) {
	if prog.Direct && exact && len(prog.Ops) == 1 && !prog.Abort && (prog.Ops[0].Kind == "delete" || prog.Ops[0].Kind == "deletekey" || prog.Ops[0].Kind == "insert" || prog.Ops[0].Kind == "at") {
		w.runDirect(&prog.Ops[0])
		return
	}
	tid := w.tid()
	mt := &MTxn{Thread: tid, Failed: map[uint32]bool{}}
	w.txns[tid] = mt
	w.stats.Txns++
	x := &txnCtx{w: w, c: w.primary, mt: mt, checkReads: true, exact: exact, abort: prog.Abort}
	err := queryRecover(w.primary, func(txn *column.Txn) error {
		x.txn = txn
		for i := range prog.Ops {
			if w.stopped() {
				return errStop
			}
			x.execOp(&prog.Ops[i])
			w.stats.Ops++
			if i+1 < len(prog.Ops) {
				w.sim.Yield(ptBetween)
			}
		}
		if w.stopped() {
			return errStop
		}
		if prog.Abort && prog.Panic && w.viol == nil {
			w.stats.fault("client-panic-in-transaction")
			panic(errClientPanic)
		}
		if prog.Abort {
			return errAbort
		}
		return nil
	})
	delete(w.txns, tid)
	w.touched = w.touched[:0]
	for _, o := range mt.Ops {
		w.touched = append(w.touched, o.Off)
	}
	if w.viol != nil {
		return
	}
	switch {
	case err == nil:
		if prog.Abort {
			w.fail(violation("query-result", "Query returned nil although the callback returned an error"))
		}
		if len(mt.Failed) > 0 {
			w.noteTrigger("fail-in-commit")
		}
		w.stats.Commits++
		changes := 0
		for _, b := range mt.Blocks() {
			if !mt.applied[b] {
				w.applyBlock(mt, b)
				changes++
			}
		}
		w.model.Apply(mt)
	case err == errAbort || err == errStop:
		w.stats.Aborts++
		w.noteRollbackInsert(mt)
		w.model.Abort(mt)
	default:
		w.fail(violation("query-result", "Query returned unexpected error %v", err))
	}
}

// runDirect issues one delete through the collection-level convenience call (single-client
// worlds). The target may be a live row, or an offset/key that holds none: then the call
// reports false / an error, nothing is emitted to the change stream and no trigger fires.
func (w *World) runDirect(op *Op) {
	tid := w.tid()
	mt := &MTxn{Thread: tid, Failed: map[uint32]bool{}}
	w.txns[tid] = mt
	w.stats.Txns++
	w.stats.Ops++
	before := len(w.tap.Commits)
	var off uint32
	var live bool
	what := ""
	switch op.Kind {
	case "delete":
		x := &txnCtx{w: w, c: w.primary, mt: mt, exact: true}
		switch op.Target.Mode {
		case "dead":
			// the lowest free offset, one right behind the last row, or one far out
			free, ok := x.freeOffset(0)
			cand := []uint32{uint32(64 * ((w.model.PeakFill+63)/64 + 2)), 1 << 22}
			if ok {
				cand = append(cand, free)
			}
			off = cand[op.Target.K%len(cand)]
		default:
			var ok bool
			if off, ok = x.resolve(op.Target); !ok {
				delete(w.txns, tid)
				return
			}
		}
		_, live = w.model.Rows[off]
		if live {
			mt.add(MOp{Kind: mDelete, Off: off})
		}
		what = fmt.Sprintf("Collection.DeleteAt(%d)", off)
		if got := w.primary.DeleteAt(off); got != live {
			w.fail(violation("delete-result", "%s=%v, a live row at that offset: %v", what, got, live))
		}
	case "insert", "at":
		// Collection.Insert / Collection.QueryAt with a callback that only stores through the Row
		x := &txnCtx{w: w, c: w.primary, mt: mt, exact: true}
		plain := *op
		plain.Writes = nil
		for _, wr := range op.Writes {
			if !wr.Delete && !wr.SetKey && !wr.Clear && wr.TTL == 0 && wr.Extend == 0 {
				wr.Via = 0
				plain.Writes = append(plain.Writes, wr)
			}
		}
		var err error
		if op.Kind == "insert" {
			var at, ret uint32
			ret, err = w.primary.Insert(func(r column.Row) error {
				at = r.Index()
				mt.add(MOp{Kind: mInsert, Off: at})
				x.mine = append(x.mine, at)
				x.checkFresh(r, at) // a fresh row must expose nothing (as in the transaction-level insert)
				x.writes(r, at, &plain)
				return nil
			})
			what = "Collection.Insert"
			if err == nil && ret != at {
				w.fail(violation("insert-result", "Collection.Insert returned offset %d but the row was positioned at %d", ret, at))
			}
			off = at
		} else {
			var ok bool
			if off, ok = x.resolve(op.Target); !ok {
				delete(w.txns, tid)
				return
			}
			what = fmt.Sprintf("Collection.QueryAt(%d)", off)
			err = w.primary.QueryAt(off, func(r column.Row) error {
				if r.Index() != off {
					w.fail(violation("cursor", "%s positioned the row at %d", what, r.Index()))
				}
				x.writes(r, off, &plain)
				return nil
			})
		}
		if err != nil {
			w.fail(violation("query-result", "%s returned %v", what, err))
		}
		live = true
	case "deletekey":
		off, live = w.model.KeyOf(op.Key)
		if live {
			mt.add(MOp{Kind: mDelete, Off: off})
		}
		what = fmt.Sprintf("Collection.DeleteKey(%q)", op.Key)
		if err := w.primary.DeleteKey(op.Key); (err == nil) != live {
			w.fail(violation("key/delete-result", "%s err=%v, key present: %v", what, err, live))
		}
	}
	delete(w.txns, tid)
	w.touched = append(w.touched[:0], off)
	if w.viol != nil {
		return
	}
	w.stats.probe("collection-level-call/" + op.Kind)
	if !live {
		if n := len(w.tap.Commits) - before; n != 0 {
			w.fail(violation("stream/commit-for-nothing", "%s found nothing to delete, yet %d commit(s) reached the change stream", what, n))
		}
		w.stats.probe("collection-level-delete-of-nothing")
		return
	}
	w.stats.Commits++
	for _, b := range mt.Blocks() {
		if !mt.applied[b] {
			w.applyBlock(mt, b)
		}
	}
	w.model.Apply(mt)
}

var errClientPanic = errors.New("sim: client panic")

// queryRecover runs a transaction and recovers the client's own panic (the fault "the
// callback panics after queueing its changes"): the transaction then neither commits nor
// rolls back, which for every observer must be the same as a rollback.
func queryRecover(c *column.Collection, fn func(txn *column.Txn) error) (err error) {
	defer func() {
		if r := recover(); r != nil {
			if r != errClientPanic {
				panic(r)
			}
			err = errAbort
		}
	}()
	return c.Query(fn)
}

// noteRollbackInsert records the trigger "a rolled-back transaction held a successful insert".
func (w *World) noteRollbackInsert(mt *MTxn) {
	for _, o := range mt.Ops {
		if o.Kind == mInsert && !o.Dead {
			w.noteTrigger("rollback-insert")
		}
	}
}

// resolve turns a symbolic target into an offset using the committed model state.
func (x *txnCtx) resolve(t Target) (uint32, bool) {
	switch t.Mode {
	case "abs":
		return uint32(t.K), true
	case "mine":
		if len(x.mine) == 0 {
			return 0, false
		}
		return x.mine[t.K%len(x.mine)], true
	case "stable":
		st := x.w.conc.stable
		if len(st) == 0 {
			return 0, false
		}
		return st[t.K%len(st)], true
	case "own", "own-nottl":
		var own []uint32
		for _, o := range x.w.conc.own[x.thread] {
			if r, live := x.w.model.Rows[o]; live {
				// rows the cleanup (or a rollback) removed meanwhile are skipped; "own-nottl" also
				// skips rows the cleanup may remove before this transaction commits (deleting by
				// offset a row that expired and whose offset was handed out again is out of contract)
				if d, has := r["expire"]; t.Mode == "own-nottl" && has && d.U != 0 {
					continue
				}
				own = append(own, o)
			}
		}
		if len(own) == 0 {
			return 0, false
		}
		return own[t.K%len(own)], true
	}
	live := x.w.model.Live()
	if len(live) == 0 {
		return 0, false
	}
	k := t.K % len(live)
	if k < 0 {
		k += len(live)
	}
	return live[k], true
}

// freeOffset picks an offset of an existing block that holds no committed row: one
// reserved by somebody else's in-flight insert, or the lowest free one (which the next
// insert will be handed).
func (x *txnCtx) freeOffset(k int) (uint32, bool) {
	m := x.w.model
	top := uint32(0)
	for o := range m.Rows {
		if o>>14 > top {
			top = o >> 14
		}
	}
	var cand []uint32
	for o, by := range m.Reserved {
		if by != x.thread && o>>14 <= top {
			cand = append(cand, o)
		}
	}
	sort.Slice(cand, func(i, j int) bool { return cand[i] < cand[j] })
	for o := uint32(0); o>>14 <= top; o++ {
		_, live := m.Rows[o]
		_, res := m.Reserved[o]
		if !live && !res {
			cand = append(cand, o)
			break
		}
	}
	for _, o := range x.mine {
		for i := 0; i < len(cand); i++ {
			if cand[i] == o {
				cand = append(cand[:i], cand[i+1:]...)
				i--
			}
		}
	}
	if len(cand) == 0 {
		return 0, false
	}
	return cand[k%len(cand)], true
}

// checkAbsentAt runs inside a point read positioned on an offset chosen because it held no
// committed row. The callback holds the block's read latch, so no commit can be applied to
// the block while it runs: if the offset holds no row when the callback starts, it shows
// nothing in any column, no insert can be committed onto it before the callback returns, and
// it still shows nothing after the scheduler had the chance to run such a commit.
func (x *txnCtx) checkAbsentAt(r column.Row, off uint32) {
	w := x.w
	if _, live := w.model.Rows[off]; live {
		x.checkRow(r, off, true) // occupied meanwhile (before the latch was taken): an ordinary point read
		return
	}
	pass := func(sig, what string) bool {
		for _, col := range w.model.Cols {
			if col.Kind == KKey {
				continue
			}
			w.stats.Reads++
			if v, ok := readCol(x.txn, r, col, flRow); ok && !(col.Kind == KBool && v.U == 0) {
				w.fail(violation(sig+"/"+string(col.Kind), "offset %d holds no committed row, yet a point read positioned on it %s %s in column %q", off, what, v.show(col.Kind), col.Name))
				return false
			}
		}
		return true
	}
	w.stats.probe("point-read-on-an-offset-without-a-row")
	if !pass("stale-on-insert", "shows") {
		return
	}
	w.sim.Yield(ptInRead)
	if _, live := w.model.Rows[off]; live {
		w.fail(violation("torn-read/commit-beside-positioned-reader", "an insert was committed onto offset %d while a point read positioned on that offset held the block", off))
		return
	}
	pass("torn-read/absent-row", "shows, after having shown nothing,")
}

func (x *txnCtx) execOp(op *Op) {
	w := x.w
	switch op.Kind {
	case "insert":
		if w.ttl != nil && w.avoid["ttl-change-during-pass"] {
			if w.ttl.inPass {
				return // see the gate in runTTLInBubble: no new occupant of an offset while a pass runs
			}
			x.noteTTLWrite()
		}
		x.insert(op, "")
	case "insertkey", "upsertkey":
		x.keyed(op)
	case "querykey":
		var at uint32
		var found, reliable bool
		eval := func() { at, found = w.model.KeyOf(op.Key); reliable = w.keysStable() }
		eval()
		w.armResume(eval) // instrumented build: the lookup happens after a yield inside the call
		defer w.armResume(nil)
		reached := false
		err := x.txn.QueryKey(op.Key, func(r column.Row) error {
			reached = true
			if reliable && r.Index() != at {
				w.fail(violation("key/lookup-wrong-row", "QueryKey(%q) reached row %d, model has it at %d", op.Key, r.Index(), at))
				return nil
			}
			x.inRow(r, r.Index(), op)
			return nil
		})
		if reliable && ((err == nil) != found || reached != found) {
			w.fail(violation("key/query-result", "QueryKey(%q) err=%v reached=%v, key present in committed state: %v", op.Key, err, reached, found))
		}
	case "deletekey":
		// only issued on keys no other thread touches (or single-client), so the model is reliable
		at, found := w.model.KeyOf(op.Key)
		if found && (w.avoid["put-delete"] && x.wrote(at, "") || w.avoid["double-delete"] && x.deleted(at)) {
			return
		}
		w.armResume(func() { at, found = w.model.KeyOf(op.Key) })
		err := x.txn.DeleteKey(op.Key)
		w.armResume(nil)
		if (err == nil) != found {
			w.fail(violation("key/delete-result", "DeleteKey(%q) err=%v, key present in committed state: %v", op.Key, err, found))
		}
		if err == nil && found {
			x.mt.add(MOp{Kind: mDelete, Off: at})
		}
	case "at":
		off, ok := x.resolve(op.Target)
		if !ok {
			return
		}
		err := x.txn.QueryAt(off, func(r column.Row) error {
			if r.Index() != off {
				w.fail(violation("cursor", "QueryAt(%d) positioned the row at %d", off, r.Index()))
			}
			x.inRow(r, off, op)
			return nil
		})
		if err != nil {
			w.fail(violation("query-result", "QueryAt returned %v", err))
		}
	case "atfree":
		off, ok := x.freeOffset(op.Target.K)
		if !ok {
			return
		}
		if err := x.txn.QueryAt(off, func(r column.Row) error {
			x.checkAbsentAt(r, off)
			return nil
		}); err != nil {
			w.fail(violation("query-result", "QueryAt returned %v", err))
		}
	case "ghostonly":
		off, ok := x.resolve(op.Target)
		if !ok {
			return
		}
		stored := false
		if err := x.txn.QueryAt(off, func(r column.Row) error {
			if w.ghostLive { // (checked here, after the yield in front of the read latch: a store to a missing column panics by contract)
				r.SetInt64("ghost", int64(off)+1)
				stored = true
			}
			return nil
		}); err != nil {
			w.fail(violation("query-result", "QueryAt returned %v", err))
		}
		if !stored {
			return
		}
		if x.mt.ghostOnly == nil {
			x.mt.ghostOnly = map[uint32]bool{}
		}
		x.mt.ghostOnly[off>>14] = true
		x.mt.ghost = true
		w.stats.probe("transaction-stores-into-unmodelled-column-only")
	case "delete":
		off, ok := x.resolve(op.Target)
		if !ok {
			return
		}
		x.deleteAt(off)
	case "range":
		x.rangeOp(op)
	case "frange":
		x.filteredRangeConc(op)
	case "deleteall":
		x.deleteAll(op)
	case "count", "agg", "ascend":
		x.readOp(op)
	default:
		panic("unknown op " + op.Kind)
	}
}

func (x *txnCtx) deleteAt(off uint32) {
	w := x.w
	if w.avoid["put-delete"] && x.wrote(off, "") {
		return // known finding: put and delete of one row in one transaction
	}
	if x.wrote(off, "") {
		w.noteTrigger("put-delete")
	}
	if x.deleted(off) {
		// known finding: two deletes of one row in one transaction are reported twice to triggers
		if w.avoid["double-delete"] {
			return
		}
		w.noteTrigger("double-delete")
	}
	x.initSel()
	x.first = false
	got := x.txn.DeleteAt(off)
	if x.exact && got != x.sel[off] {
		// single client: the selection started as the committed live set (own reservations
		// made before the selection was initialised are not asserted either way)
		mine := false
		for _, o := range x.mine {
			mine = mine || o == off
		}
		if !mine {
			w.fail(violation("delete-result", "DeleteAt(%d)=%v but the row's membership in the transaction's selection is %v", off, got, x.sel[off]))
			return
		}
	}
	if got {
		x.mt.add(MOp{Kind: mDelete, Off: off})
	}
}

// insert runs Insert (or the insert half of a key operation, when key != "").
func (x *txnCtx) insert(op *Op, key string) {
	w := x.w
	var inCb uint32
	called := false
	cb := func(r column.Row) error {
		called = true
		inCb = r.Index()
		first := len(x.mt.Ops)
		defer func() {
			if op.Fail {
				x.mt.killFrom(first)
			}
		}()
		x.mt.add(MOp{Kind: mInsert, Off: inCb})
		x.mine = append(x.mine, inCb)
		// a fresh row must expose nothing (no stale data of a previous occupant)
		x.checkFresh(r, inCb)
		x.writes(r, inCb, op)
		if op.Fail {
			// the library frees the offset of a failing insert when the callback has returned
			// (the model follows when the call returns: see below)
			x.noteFail()
			x.mt.Failed[inCb] = true
			return errInsertFail
		}
		return nil
	}
	var off uint32
	var err error
	switch {
	case op.Kind == "insertkey":
		err = x.txn.InsertKey(key, cb)
		off = inCb
	case op.Kind == "upsertkey":
		err = x.txn.UpsertKey(key, cb)
		off = inCb
	default:
		off, err = x.txn.Insert(cb)
	}
	if called && op.Fail {
		delete(w.model.Reserved, inCb) // freed by the library before the call returned
	}
	if !called {
		w.fail(violation("insert-result", "%s did not run its callback (err=%v)", op.Kind, err))
		return
	}
	if off != inCb {
		w.fail(violation("insert-result", "Insert returned offset %d but the row was positioned at %d", off, inCb))
	}
	if (err != nil) != op.Fail {
		w.fail(violation("insert-result", "%s returned err=%v, callback failed=%v", op.Kind, err, op.Fail))
	}
	if key != "" {
		// the library queues the key write after the callback, whatever it returned
		kc, _ := w.model.KeyCol()
		x.mt.add(MOp{Kind: mPut, Off: inCb, Col: kc.Name, Val: MVal{S: key}})
	}
}

// dupKey handles the known finding "one key written twice inside one transaction": it
// returns true when the operation must be skipped, otherwise records the trigger.
func (x *txnCtx) dupKey(key string) bool {
	w := x.w
	for _, o := range x.mt.Ops {
		if kc, ok := w.model.KeyCol(); ok && o.Kind == mPut && o.Col == kc.Name && o.Val.S == key {
			if w.avoid["dup-key-in-txn"] {
				return true
			}
			w.noteTrigger("dup-key-in-txn")
		}
	}
	return false
}

// insertingAt reports whether the row at the offset is being inserted by this transaction.
func (x *txnCtx) insertingAt(off uint32) bool {
	for _, o := range x.mine {
		if o == off {
			return true
		}
	}
	return false
}

func (x *txnCtx) keyed(op *Op) {
	w := x.w
	if x.dupKey(op.Key) {
		return
	}
	// The committed key map is a reliable prediction only while no commit is in flight on
	// another thread (the library applies the key write somewhere inside the commit). It is
	// evaluated at the moment the library looks the key up: before the call, and again when
	// the thread is released from the yield in front of the key table's lock (instrumented
	// build), whichever is later.
	var at uint32
	var exists, reliable bool
	eval := func() { at, exists = w.model.KeyOf(op.Key); reliable = w.keysStable() }
	eval()
	w.armResume(eval)
	defer w.armResume(nil)
	before := w.reserves[x.thread]
	called := false
	var rowAt uint32
	inserted := false
	cb := func(r column.Row) error {
		called = true
		rowAt = r.Index()
		if w.reserves[x.thread] != before {
			// the library reserved a fresh offset: insert path
			inserted = true
			first := len(x.mt.Ops)
			defer func() {
				if op.Fail {
					x.mt.killFrom(first)
				}
			}()
			x.mt.add(MOp{Kind: mInsert, Off: rowAt})
			x.mine = append(x.mine, rowAt)
			x.checkFresh(r, rowAt)
			x.writes(r, rowAt, op)
			if op.Fail {
				x.noteFail()
				x.mt.Failed[rowAt] = true
				return errInsertFail
			}
			return nil
		}
		x.inRow(r, rowAt, op)
		if op.Fail {
			return errInsertFail
		}
		return nil
	}
	var err error
	if op.Kind == "insertkey" {
		err = x.txn.InsertKey(op.Key, cb)
	} else {
		err = x.txn.UpsertKey(op.Key, cb)
	}
	if inserted && op.Fail {
		delete(w.model.Reserved, rowAt) // freed by the library before the call returned
	}
	if inserted {
		// the library queues the key write after the callback, whatever it returned
		kc, _ := w.model.KeyCol()
		x.mt.add(MOp{Kind: mPut, Off: rowAt, Col: kc.Name, Val: MVal{S: op.Key}, Dead: op.Fail})
	}
	if called && (err != nil) != op.Fail {
		w.fail(violation("key/result", "%s(%q): callback failed=%v but err=%v", op.Kind, op.Key, op.Fail, err))
		return
	}
	if !reliable {
		return
	}
	switch {
	case op.Kind == "insertkey" && exists && (called || err == nil):
		w.fail(violation("key/insert-existing", "InsertKey(%q) err=%v callback-called=%v although the key exists at row %d", op.Key, err, called, at))
	case op.Kind == "insertkey" && !exists && !inserted:
		w.fail(violation("key/insert-refused", "InsertKey(%q) err=%v did not insert although the key is absent", op.Key, err))
	case op.Kind == "upsertkey" && exists && (inserted || !called || rowAt != at):
		w.fail(violation("key/upsert-existing", "UpsertKey(%q): key exists at row %d but inserted=%v called=%v row=%d", op.Key, at, inserted, called, rowAt))
	case op.Kind == "upsertkey" && !exists && !inserted:
		w.fail(violation("key/upsert-absent", "UpsertKey(%q): key absent but no row was inserted (called=%v err=%v)", op.Key, called, err))
	}
}

// keysStable reports whether no other thread is inside a commit (between taking a block
// latch and releasing it), i.e. the model's key map equals the library's lookup table.
func (w *World) keysStable() bool {
	if w.conc == nil {
		return true
	}
	for tid, m := range w.conc.cur {
		if tid != w.tid() && len(m) > 0 {
			return false
		}
	}
	// the key table also changes before the model does: row deletes reach the key column
	// right after the latch is taken
	for tid, m := range w.conc.holding {
		if tid != w.tid() && len(m) > 0 {
			return false
		}
	}
	return true
}

// checkFresh asserts that a row being inserted shows no value in any column.
func (x *txnCtx) checkFresh(r column.Row, off uint32) {
	w := x.w
	for _, col := range w.model.Cols {
		if col.Kind == KKey {
			continue
		}
		if v, ok := readCol(x.txn, r, col, flRow); ok && !(col.Kind == KBool && v.U == 0) {
			w.fail(violation("stale-on-insert/"+string(col.Kind), "row %d being inserted already shows %s in column %q (left by a previous occupant)", off, v.show(col.Kind), col.Name))
			return
		}
	}
}

// inRow performs the reads and writes of an op on the positioned row.
func (x *txnCtx) inRow(r column.Row, off uint32, op *Op) {
	x.ttlAcc = nil
	for _, wr := range op.Writes {
		if (wr.TTL != 0 || wr.Clear) && wr.Via == 1 && x.w.ttl != nil {
			x.ttlAcc = x.txn.TTL() // obtained before the reads below, during which the scheduler may advance the clock
		}
	}
	x.checkRow(r, off, op.Yield)
	if x.w.ttl != nil && x.w.viol == nil {
		// the remaining time-to-live is exactly deadline minus (fake) now
		if d, ok := x.w.model.Get(off, "expire"); ok && d.U != 0 {
			got, has := r.TTL()
			want := time.Unix(0, int64(d.U)).Sub(time.Now())
			if !has || got != want {
				x.w.fail(violation("ttl/remaining", "row %d: Row.TTL()=%v,%v but the committed deadline is %v away", off, got, has, want))
			}
			acc := x.txn.TTL()
			if got, has := acc.TTL(); !has || got != want {
				x.w.fail(violation("ttl/remaining", "row %d: txn.TTL().TTL()=%v,%v but the committed deadline is %v away", off, got, has, want))
			}
			if at, has := acc.ExpiresAt(); !has || at.UnixNano() != int64(d.U) {
				x.w.fail(violation("ttl/expires-at", "row %d: txn.TTL().ExpiresAt()=%v,%v but the committed deadline is %v", off, at, has, time.Unix(0, int64(d.U))))
			}
		}
	}
	before := len(x.mt.Ops)
	x.writes(r, off, op)
	if op.Ghost && x.w.ghostLive {
		// a store into the unmodelled column, only next to a modelled store to the same row of
		// this very operation (so the block counts as changed whatever happens to the column)
		for _, o := range x.mt.Ops[before:] {
			if o.Off == off && (o.Kind == mPut || o.Kind == mMerge) && !o.Dead {
				r.SetInt64("ghost", int64(off))
				x.mt.ghost = true
				x.w.stats.probe("store-into-unmodelled-column")
				break
			}
		}
	}
	if len(op.Writes) > 0 {
		// own reads keep returning the committed values
		x.checkRow(r, off, false)
	}
}

// checkRow compares every column of the positioned row with the committed model state.
// It runs under the block's read latch, so the model (updated under the write latch) is
// exactly what the reader must see: a mixture of two committed states is a torn read.
func (x *txnCtx) checkRow(r column.Row, off uint32, yield bool) {
	w := x.w
	if !x.checkReads || w.viol != nil {
		return
	}
	if !x.exact {
		if _, live := w.model.Rows[off]; !live {
			return // deleted by a concurrent commit (workload or cleanup): nothing to assert about a dead offset
		}
	}
	for i, col := range w.model.Cols {
		gv, gok := readCol(x.txn, r, col, flRow)
		wv, wok := w.model.Get(off, col.Name)
		w.stats.Reads++
		if !sameVal(col.Kind, gv, gok, wv, wok) {
			w.fail(violation(fmt.Sprintf("read-in-txn/%s", col.Kind),
				"row %d column %q read inside a transaction: got %s, committed value is %s", off, col.Name,
				showOpt(col.Kind, gv, gok), showOpt(col.Kind, wv, wok)))
			return
		}
		if yield && i+1 < len(w.model.Cols) {
			w.sim.Yield(ptInRead)
		}
	}
}

// writes issues the op's writes on the positioned row and records them for the model.
func (x *txnCtx) writes(r column.Row, off uint32, op *Op) {
	w := x.w
	for i := range op.Writes {
		wr := &op.Writes[i]
		switch {
		case wr.Delete:
			x.deleteAt(off)
			continue
		case (wr.TTL != 0 || wr.Extend != 0 || wr.Clear) && w.ttl != nil && w.ttl.inPass && w.avoid["ttl-change-during-pass"]:
			continue // see the gate in runTTLInBubble
		case wr.Clear:
			// the time-to-live is taken away again: whatever deadline the row had, committed or
			// set earlier in this transaction, no longer applies
			x.noteTTLWrite()
			if wr.Via == 1 && x.ttlAcc != nil {
				x.ttlAcc.Set(time.Duration(wr.TTL))
			} else if until := r.SetTTL(time.Duration(wr.TTL)); !until.IsZero() {
				w.fail(violation("ttl/deadline-returned", "row %d: SetTTL(%v) returned the deadline %v", off, time.Duration(wr.TTL), until))
			}
			if x.deleted(off) {
				continue
			}
			x.mt.add(MOp{Kind: mPut, Off: off, Col: "expire", Val: MVal{U: 0}})
			w.stats.probe("ttl-cleared")
			continue
		case wr.TTL != 0:
			x.noteTTLWrite()
			// the deadline is predicted here, not taken from the library: now (the fake clock of
			// the bubble does not move inside a step) plus the time-to-live
			want := time.Now().Add(time.Duration(wr.TTL))
			if wr.Via == 1 && x.ttlAcc != nil {
				// through the accessor, which was obtained when the operation started: the clock may
				// have been advanced since
				x.ttlAcc.Set(time.Duration(wr.TTL))
				w.stats.probe("ttl-set-through-accessor")
			} else if until := r.SetTTL(time.Duration(wr.TTL)); w.ttl != nil && !until.Equal(want) {
				w.fail(violation("ttl/deadline-returned", "row %d: SetTTL(%v) at +%v returned the deadline +%v", off, time.Duration(wr.TTL), time.Since(w.ttl.start), until.Sub(w.ttl.start)))
			}
			if x.deleted(off) {
				continue
			}
			x.mt.add(MOp{Kind: mPut, Off: off, Col: "expire", Val: MVal{U: uint64(want.UnixNano())}})
			continue
		case wr.Extend != 0:
			// Extend on a row without a time-to-live is unspecified: only rows whose committed
			// deadline is set are extended
			if d, ok := w.model.Get(off, "expire"); !ok || d.U == 0 || x.deleted(off) {
				continue
			}
			x.noteTTLWrite()
			x.txn.TTL().Extend(time.Duration(wr.Extend))
			x.mt.add(MOp{Kind: mMerge, Off: off, Col: "expire", Val: MVal{U: uint64(wr.Extend)}})
			w.stats.probe("ttl-extended")
			continue
		case wr.SetKey:
			key := wr.Val.Str()
			if x.dupKey(key) {
				continue
			}
			_, exists := w.model.KeyOf(key)
			if wr.Draft && (exists || !x.insertingAt(off)) {
				continue // a draft key is only given to a row this call inserts, and never a key in use
			}
			if wr.Draft {
				w.stats.probe("key-written-twice-in-one-commit")
			}
			r.SetKey(key)
			if !exists {
				kc, _ := w.model.KeyCol()
				x.mt.add(MOp{Kind: mPut, Off: off, Col: kc.Name, Val: MVal{S: key}})
			}
			continue
		}
		col, ok := w.model.Col(wr.Col)
		if !ok {
			continue // column not created (yet) in this history
		}
		mv := wr.Val.M(col.Kind)
		if nk, isNum := nums[col.Kind]; isNum {
			mv.U = nk.canon(mv.U)
		}
		kind := mPut
		if wr.Merge && col.Kind.Mergeable() {
			kind = mMerge
		}
		if kind, ok = x.avoidWrite(off, col, kind); !ok {
			continue
		}
		if col.Kind == KEnum && (mv.S == enumCollision[0] || mv.S == enumCollision[1]) {
			w.noteTrigger("enum-hash-collision")
		}
		x.issue(r, col, kind == mMerge, mv, wr.Via)
		x.mt.add(MOp{Kind: kind, Off: off, Col: col.Name, Val: mv})
	}
}

// issue performs one store/merge through the chosen API flavour.
func (x *txnCtx) issue(r column.Row, col ColSpec, merge bool, v MVal, via int) {
	txn := x.txn
	n := col.Name
	if via == 2 && !merge && col.Kind != KKey && txn.Index()%2 == 1 {
		// the untyped flavour through the map API (rows at odd offsets)
		var val any
		switch col.Kind {
		case KBool:
			val = v.U != 0
		case KString, KEnum:
			val = v.S
		case KRecord:
			rec := new(Rec)
			if err := rec.UnmarshalBinary([]byte(v.S)); err != nil {
				panic(err)
			}
			val = rec
		default:
			val = nums[col.Kind].toAny(v.U)
		}
		err := r.SetMany(map[string]any{n: val})
		if x.w == nil {
			return // race mode: no model, no shared harness state
		}
		if err != nil {
			x.w.fail(violation("setmany-error", "Row.SetMany({%q: ...}) on an existing %s column returned %v", n, col.Kind, err))
		}
		x.w.stats.probe("store-through-Row.SetMany")
		return
	}
	switch col.Kind {
	case KBool:
		switch via {
		case 1:
			txn.Bool(n).Set(v.U != 0)
		case 2:
			r.SetAny(n, v.U != 0)
		default:
			r.SetBool(n, v.U != 0)
		}
	case KString:
		switch {
		case merge && via == 1:
			txn.String(n).Merge(v.S)
		case merge:
			r.MergeString(n, v.S)
		case via == 1:
			txn.String(n).Set(v.S)
		case via == 2:
			r.SetAny(n, v.S)
		default:
			r.SetString(n, v.S)
		}
	case KEnum:
		switch via {
		case 1:
			txn.Enum(n).Set(v.S)
		case 2:
			r.SetAny(n, v.S)
		default:
			r.SetEnum(n, v.S)
		}
	case KRecord:
		rec := new(Rec)
		if err := rec.UnmarshalBinary([]byte(v.S)); err != nil {
			panic(err)
		}
		switch {
		case merge && via == 1:
			txn.Record(n).Merge(rec)
		case merge:
			r.MergeRecord(n, rec)
		case via == 1:
			txn.Record(n).Set(rec)
		case via == 2:
			r.SetAny(n, rec)
		default:
			r.SetRecord(n, rec)
		}
	case KKey:
		panic("key columns are written through key operations")
	default:
		nk := nums[col.Kind]
		switch {
		case merge && via == 1:
			nk.tmerge(txn, n, v.U)
		case merge:
			nk.merge(r, n, v.U)
		case via == 1:
			nk.tset(txn, n, v.U)
		case via == 2:
			r.SetAny(n, nk.toAny(v.U))
		default:
			nk.set(r, n, v.U)
		}
	}
}

// wrote reports whether this transaction already queued a store to the row (col == "":
// any column).
func (x *txnCtx) wrote(off uint32, col string) bool {
	for _, o := range x.mt.Ops {
		if o.Off == off && (o.Kind == mPut || o.Kind == mMerge) && (col == "" || o.Col == col) {
			return true
		}
	}
	return false
}

func (x *txnCtx) deleted(off uint32) bool {
	for _, o := range x.mt.Ops {
		if o.Off == off && o.Kind == mDelete {
			return true
		}
	}
	return false
}

// avoidWrite applies the avoidance switches of known findings to one store: it may turn
// a merge into a put, or drop the store (ok=false).
func (x *txnCtx) avoidWrite(off uint32, col ColSpec, kind mopKind) (mopKind, bool) {
	w := x.w
	if x.deleted(off) {
		if w.avoid["put-delete"] {
			return kind, false
		}
		w.noteTrigger("put-delete")
	}
	if col.Merge == "concat" || col.Merge == "short" || col.Merge == "sum" {
		afterMerge := false
		for _, o := range x.mt.Ops {
			afterMerge = afterMerge || o.Off == off && o.Col == col.Name && o.Kind == mMerge
		}
		if afterMerge {
			if w.avoid["len-merge-put"] {
				return kind, false // a store after a (possibly length-changing) merge of the same row and column
			}
			w.noteTrigger("len-merge-put")
		}
		if x.splitRun(off, col.Name) {
			if w.avoid["len-merge-split"] {
				return kind, false
			}
			w.noteTrigger("len-merge-split")
		}
	}
	if kind == mMerge {
		if _, ok := w.model.Get(off, col.Name); !ok && !x.wrote(off, col.Name) && (w.model.Touched[off][col.Name] || w.conc != nil && !w.isStable(off)) {
			if w.avoid["merge-absent"] {
				return mPut, true // the row holds nothing in the column: the stale slot of a previous occupant would be merged
			}
			w.noteTrigger("merge-absent")
		}
	}
	return kind, true
}

// splitRun reports whether queueing one more store to (off, col) produces the history of
// the known finding "len-merge-split": the column's buffer holds a merge M of some row r of
// off's block b, a later store to the same row r (possibly this one), and between M and the
// end of the buffer a store of the column into another block. The buffer then ends in a run
// of block b that is not M's run; the put the library appends for a length-changing merge
// result lands at the end of that later run and is applied again, after the later store.
// (When the buffer ends in M's own run or in a run of another block the appended put is not
// visited by the pass that applies the column, and the stored value is right.) Operations of
// failing inserts stay in the library's buffer, so dead operations count.
func (x *txnCtx) splitRun(off uint32, col string) bool {
	b := off >> 14
	type ms struct{ later, other bool } // per merged row of block b: a later store to it / a store into another block since
	merged := map[uint32]*ms{}
	note := func(o uint32) {
		for r, m := range merged {
			if o>>14 != b {
				m.other = true
			} else if r == o {
				m.later = true
			}
		}
	}
	for _, o := range x.mt.Ops {
		if o.Col != col || (o.Kind != mPut && o.Kind != mMerge) {
			continue
		}
		note(o.Off)
		if o.Kind == mMerge && o.Off>>14 == b && merged[o.Off] == nil {
			merged[o.Off] = &ms{}
		}
	}
	note(off)
	for _, m := range merged {
		if m.later && m.other {
			return true
		}
	}
	return false
}

// noteFail records the trigger "failing insert inside a transaction that commits".
func (x *txnCtx) noteFail() {
	if !x.abort {
		x.w.noteTrigger("fail-in-commit")
	}
}

// noteTTLWrite counts the transaction as holding an uncommitted time-to-live write.
func (x *txnCtx) noteTTLWrite() {
	if x.w.ttl != nil && !x.ttlPending {
		x.ttlPending = true
		x.w.ttl.pendingTTL++
	}
}

// isStable reports whether the offset is one of the set-up rows of a concurrent world
// (never deleted, so an untouched slot of it stays untouched until somebody stores into it).
func (w *World) isStable(off uint32) bool {
	for _, o := range w.conc.stable {
		if o == off {
			return true
		}
	}
	return false
}
