package colsim

import (
	"fmt"
	"math"
	"sort"

	"github.com/kelindar/column"
)

// sel is a set of offsets in the model's evaluation of a filter chain.
type sel map[uint32]bool

func (s sel) sorted() []uint32 {
	out := make([]uint32, 0, len(s))
	for o := range s {
		out = append(out, o)
	}
	sort.Slice(out, func(i, j int) bool { return out[i] < out[j] })
	return out
}

// has reports whether a live row is selected by a bare column/index name: an index selects
// the rows satisfying its predicate, a value column the rows holding a value, a bool column
// the rows holding true.
func (m *Model) has(name string, off uint32) bool {
	for _, ix := range m.Indexes {
		if ix.Name == name {
			return m.IndexHas(ix, off)
		}
	}
	c, ok := m.Col(name)
	if !ok {
		return false
	}
	v, ok := m.Get(off, name)
	if !ok {
		return false
	}
	if c.Kind == KBool {
		return v.U != 0
	}
	return true
}

func (m *Model) exists(name string) bool {
	for _, ix := range m.Indexes {
		if ix.Name == name {
			return true
		}
	}
	_, ok := m.Col(name)
	return ok
}

// typedPred evaluates a typed filter predicate on a model value the way the library's
// conversion (C(data[idx])) would show it to the predicate.
func typedPred(p *PredSpec, kind string, k Kind, v MVal) bool {
	switch kind {
	case "withint":
		return nums[k].toI64(v.U) > p.I
	case "withuint":
		return nums[k].toU64(v.U) > uint64(p.I)
	case "withfloat":
		return nums[k].toF64(v.U) > p.F
	case "withstring":
		return strPred(p, v.S)
	}
	// withvalue: predicate over the boxed value
	switch {
	case k.Numeric():
		return nums[k].toF64(v.U) > p.F
	case k == KBool:
		return true
	case k == KRecord:
		return len(v.S) >= 4 && int64(uint32(v.S[0])<<24|uint32(v.S[1])<<16|uint32(v.S[2])<<8|uint32(v.S[3])) > p.I
	}
	return strPred(p, v.S)
}

func strPred(p *PredSpec, s string) bool {
	if p.Fam == "spre" {
		return len(s) > 0 && s[:1] < p.S
	}
	return s == p.S
}

// anyPred is the WithValue predicate handed to the library.
func anyPred(p *PredSpec, k Kind) func(v any) bool {
	return func(v any) bool {
		switch {
		case k.Numeric():
			u, ok := nums[k].fromAny(v)
			return ok && nums[k].toF64(u) > p.F
		case k == KBool:
			return true
		case k == KRecord:
			rec, ok := v.(*Rec)
			return ok && int64(rec.N) > p.I
		}
		s, ok := v.(string)
		return ok && strPred(p, s)
	}
}

// modelFilterStep applies one filter step to the model's view of a selection, restricted
// to the offsets for which only() holds (a whole collection, or one 16K block).
func modelFilterStep(m *Model, s sel, f *FStep, first bool, only func(uint32) bool) {
	switch f.Kind {
	case "with":
		for _, n := range f.Names {
			for o := range s {
				if only(o) && (!m.exists(n) || !m.has(n, o)) {
					delete(s, o)
				}
			}
		}
	case "without":
		for _, n := range f.Names {
			for o := range s {
				if only(o) && m.exists(n) && m.has(n, o) {
					delete(s, o)
				}
			}
		}
	case "union", "withunion":
		asUnion := f.Kind == "union" || first || len(f.Names) == 1
		if asUnion {
			lead := first
			for _, n := range f.Names {
				if m.exists(n) {
					if lead {
						for o := range s {
							if only(o) && !m.has(n, o) {
								delete(s, o)
							}
						}
					} else {
						for o := range m.Rows {
							if only(o) && m.has(n, o) {
								s[o] = true
							}
						}
					}
				}
				lead = false
			}
		} else {
			for o := range s {
				if !only(o) {
					continue
				}
				any := false
				for _, n := range f.Names {
					any = any || (m.exists(n) && m.has(n, o))
				}
				if !any {
					delete(s, o)
				}
			}
		}
	default: // value predicates
		name := f.Names[0]
		col, ok := m.Col(name)
		applicable := ok
		switch f.Kind {
		case "withint", "withuint", "withfloat":
			applicable = ok && col.Kind.Numeric()
		case "withstring":
			applicable = ok && col.Kind.Textual()
		}
		for o := range s {
			if !only(o) {
				continue
			}
			v, present := m.Get(o, name)
			if !applicable || !present || (col.Kind == KBool && v.U == 0) || !typedPred(f.Pred, f.Kind, col.Kind, v) {
				delete(s, o)
			}
		}
	}
}

// libFilterStep issues one filter step on the real transaction.
func (x *txnCtx) libFilterStep(f *FStep) {
	m := x.w.model
	switch f.Kind {
	case "with":
		x.txn.With(f.Names...)
	case "without":
		x.txn.Without(f.Names...)
	case "union":
		x.txn.Union(f.Names...)
	case "withunion":
		x.txn.WithUnion(f.Names...)
	default:
		name := f.Names[0]
		col, _ := m.Col(name)
		switch f.Kind {
		case "withvalue":
			x.txn.WithValue(name, anyPred(f.Pred, col.Kind))
		case "withint":
			th := f.Pred.I
			x.txn.WithInt(name, func(v int64) bool { return v > th })
		case "withuint":
			th := uint64(f.Pred.I)
			x.txn.WithUint(name, func(v uint64) bool { return v > th })
		case "withfloat":
			th := f.Pred.F
			x.txn.WithFloat(name, func(v float64) bool { return v > th })
		case "withstring":
			p := f.Pred
			x.txn.WithString(name, func(v string) bool { return strPred(p, v) })
		default:
			panic("unknown filter " + f.Kind)
		}
	}
}

// applyFilter runs a filter chain on the real transaction and, when the world is
// single-client (exact), evaluates the same chain as set algebra on the model.
func (x *txnCtx) applyFilter(chain []FStep) sel {
	x.initSel()
	s := x.sel
	first := &x.first
	all := func(uint32) bool { return true }
	for i := range chain {
		f := &chain[i]
		if i > 0 && x.w.triggered["union-after-clear"] && s != nil && x.w.viol == nil {
			// the known finding was just exercised: judge it right here, before anything
			// downstream (aggregates, DeleteAll, DeleteAt) builds on the diverged selection
			if got := x.txn.Count(); got != len(s) {
				x.w.fail(violation("filter/count", "Count after %s = %d, set algebra on the model gives %d", showChain(chain[:i]), got, len(s)))
				return s
			}
		}
		if (f.Kind == "union" || f.Kind == "withunion") && x.cleared {
			// known finding: a selection emptied by a filter on a missing column cannot be widened again
			if x.w.avoid["union-after-clear"] {
				continue
			}
			x.w.noteTrigger("union-after-clear")
		}
		if x.clears(f) {
			x.cleared = true
		}
		x.filtered = true // (the selection persists: a later unfiltered operation of this transaction still sees it)
		x.libFilterStep(f)
		if s != nil {
			modelFilterStep(x.w.model, s, f, *first, all)
		}
		*first = false
	}
	*first = false
	if x.w.triggered["union-after-clear"] && s != nil && x.w.viol == nil {
		if got := x.txn.Count(); got != len(s) {
			x.w.fail(violation("filter/count", "Count after %s = %d, set algebra on the model gives %d", showChain(chain), got, len(s)))
		}
	}
	return s
}

// filterCapture records, for a filter chain executed in a concurrent world, what the
// library could see of each block at the moment it worked on it: the hook before every
// block read latch fires for each (filter step, block); when the thread is released from
// it, it takes the latch and processes the block atomically (no further hook), so the
// model's committed state of that block at release time is exactly its input.
type filterCapture struct {
	active bool
	step   int
	views  [][][]blockView // per filter step, per pass over the blocks (one pass per name for With/Without/Union)
}

type blockView struct {
	block uint32
	m     *Model
}

func (fc *filterCapture) add(m *Model, block uint32) {
	for len(fc.views) <= fc.step {
		fc.views = append(fc.views, nil)
	}
	v := &Model{Cols: m.Cols, Indexes: m.Indexes, Rows: map[uint32]map[string]MVal{}}
	for off, r := range m.Rows {
		if off>>14 == block {
			nr := make(map[string]MVal, len(r))
			for k, val := range r {
				nr[k] = val
			}
			v.Rows[off] = nr
		}
	}
	passes := fc.views[fc.step]
	if n := len(passes); n == 0 || len(passes[n-1]) > 0 && block <= passes[n-1][len(passes[n-1])-1].block {
		passes = append(passes, nil) // the block number did not increase: a new pass begins
	}
	passes[len(passes)-1] = append(passes[len(passes)-1], blockView{block: block, m: v})
	fc.views[fc.step] = passes
}

// filteredRangeConc is the C04 oracle under concurrency ("frange"): a filter chain followed
// by Range runs while writers commit; the visited offsets must equal the set algebra
// evaluated per block on the states captured at the moments the library processed them.
func (x *txnCtx) filteredRangeConc(op *Op) {
	w := x.w
	if x.inited {
		return // one selection per transaction
	}
	x.inited = true
	fc := &filterCapture{}
	w.capFor[x.thread] = fc
	defer delete(w.capFor, x.thread)
	// Txn.initialize clones the fill list inside the first selection call, in this very step
	s := sel{}
	for o := range w.model.Rows {
		s[o] = true
	}
	for o := range w.model.Reserved {
		s[o] = true
	}
	first := true
	chain := op.Filter
	for i := range chain {
		// chains touching a missing or inapplicable column truncate the selection (and skip
		// passes): that is the single-client check's business
		if x.clears(&chain[i]) {
			return
		}
		for _, n := range chain[i].Names {
			if !w.model.exists(n) {
				return
			}
		}
	}
	if len(chain) == 0 {
		x.txn.Count()
	}
	for i := range chain {
		f := &chain[i]
		fc.step, fc.active = i, true
		x.libFilterStep(f)
		fc.active = false
	}
	var visited []uint32
	x.txn.Range(func(idx uint32) { visited = append(visited, idx) })
	for i := range chain {
		f := &chain[i]
		var passes [][]blockView
		if i < len(fc.views) {
			passes = fc.views[i]
		}
		// With/Without/Union (and WithUnion when it delegates to Union) make one pass over the
		// blocks per name; WithUnion proper and the value predicates make a single pass
		perName := f.Kind == "with" || f.Kind == "without" || f.Kind == "union" || (f.Kind == "withunion" && (first || len(f.Names) == 1))
		if perName {
			for j, name := range f.Names {
				sub := FStep{Kind: f.Kind, Names: []string{name}}
				if sub.Kind == "withunion" {
					sub.Kind = "union"
				}
				if j < len(passes) {
					for _, bv := range passes[j] {
						b := bv.block
						modelFilterStep(bv.m, s, &sub, first && j == 0, func(off uint32) bool { return off>>14 == b })
					}
				}
			}
		} else if len(passes) > 0 {
			for _, bv := range passes[0] {
				b := bv.block
				modelFilterStep(bv.m, s, f, first, func(off uint32) bool { return off>>14 == b })
			}
		}
		first = false
	}
	w.stats.Checks++
	w.stats.probe("filter-chain-under-concurrent-commits")
	if v := compareOffsets("filter/range-concurrent", visited, s.sorted()); v != nil && w.viol == nil {
		v.Detail = fmt.Sprintf("Range after %s beside committing writers: %s (per-block set algebra on the states the library could see)", showChain(chain), v.Detail)
		w.fail(v)
	}
	if op.Col != "" {
		x.aggConc(op, s)
	}
}

// clears reports whether a filter step hits a missing (or inapplicable) column, which makes
// the library truncate the selection bitmap rather than zero it.
func (x *txnCtx) clears(f *FStep) bool {
	m := x.w.model
	switch f.Kind {
	case "with":
		for _, n := range f.Names {
			if !m.exists(n) {
				return true
			}
		}
	case "withvalue", "withint", "withuint", "withfloat", "withstring":
		col, ok := m.Col(f.Names[0])
		if !ok {
			return true
		}
		switch f.Kind {
		case "withint", "withuint", "withfloat":
			return !col.Kind.Numeric()
		case "withstring":
			return !col.Kind.Textual()
		}
	}
	return false
}

// initSel mirrors Txn.initialize: the first selection-related call of a transaction
// snapshots the live set; filters then narrow or widen it for the rest of the transaction.
func (x *txnCtx) initSel() {
	if x.inited {
		return
	}
	x.inited = true
	x.first = true
	if x.exact {
		x.sel = sel{}
		for o := range x.w.model.Rows {
			x.sel[o] = true
		}
	}
}

func (x *txnCtx) rangeOp(op *Op) {
	w := x.w
	want := x.applyFilter(op.Filter)
	var visited []uint32
	n, nres := 0, 0
	err := x.txn.Range(func(idx uint32) {
		visited = append(visited, idx)
		if w.viol != nil {
			return
		}
		if x.txn.Index() != idx {
			w.fail(violation("cursor", "Range callback for %d has the cursor at %d", idx, x.txn.Index()))
			return
		}
		_, isReserved := w.model.Reserved[idx]
		if ((op.Limit > 0 && n >= op.Limit) || (!x.exact && n >= 8) || n >= 32) && !(isReserved && nres < 3) {
			return
		}
		n++
		if by, reserved := w.model.Reserved[idx]; reserved {
			nres++ // rows reserved by in-flight inserts are looked at wherever they are (a full block has 16K rows before them)
			// own in-flight insert: not asserted either way; someone else's: a phantom
			if by != x.thread && w.conc != nil && w.conc.or.phantom && !w.avoid["phantom-reserved"] {
				w.noteTrigger("phantom-reserved")
				w.fail(violation("phantom-insert/range", "Range visited offset %d which is only reserved by the uncommitted insert of thread %d", idx, by))
			}
			if by != x.thread && !x.exact && w.viol == nil {
				x.checkReservedRow(idx, op.Yield)
			}
			return
		}
		if !x.exact {
			if _, live := w.model.Rows[idx]; !live {
				return // deleted by a concurrent commit after the selection was taken
			}
		}
		x.checkRowTxn(idx, op.Yield)
		x.writesTxn(idx, op)
	})
	if err != nil {
		w.fail(violation("query-result", "Range returned %v", err))
	}
	if want != nil && w.viol == nil {
		if v := compareOffsets("filter/range", visited, want.sorted()); v != nil {
			v.Detail = fmt.Sprintf("Range after %s: %s", showChain(op.Filter), v.Detail)
			w.fail(v)
		}
	}
	w.stats.Checks++
}

// checkReservedRow runs when a Range callback is positioned on an offset that is only
// reserved by somebody else's uncommitted insert (that it is visited at all is C02's known
// finding and not judged here). The callback holds the block's read latch, so the insert
// cannot commit meanwhile: the row must show nothing when the callback starts (anything
// else was left behind by a previous occupant) and still nothing after the scheduler had a
// chance to run the inserter's commit (anything else is a commit applied beside a reader
// positioned on the row: a half-applied state of that row).
func (x *txnCtx) checkReservedRow(off uint32, yield bool) {
	w := x.w
	pass := func(sig, what string) bool {
		for _, col := range w.model.Cols {
			if col.Kind == KKey {
				continue
			}
			w.stats.Reads++
			if v, ok := readCol(x.txn, column.Row{}, col, flTxn); ok && !(col.Kind == KBool && v.U == 0) {
				w.fail(violation(sig+"/"+string(col.Kind), "row %d, reserved by an uncommitted insert, %s %s in column %q inside a Range callback", off, what, v.show(col.Kind), col.Name))
				return false
			}
		}
		return true
	}
	if !pass("stale-on-insert", "already shows") || !yield {
		return
	}
	if _, still := w.model.Reserved[off]; !still {
		return
	}
	w.sim.Yield(ptInRead)
	if _, live := w.model.Rows[off]; live {
		// the model says the insert was committed while this callback held the block
		w.fail(violation("torn-read/commit-beside-positioned-reader", "the insert of row %d was committed while a Range callback positioned on that row held the block", off))
		return
	}
	pass("torn-read/reserved-row", "shows, after having shown nothing,")
}

// checkRowTxn is checkRow through the transaction-level readers (Range callbacks).
func (x *txnCtx) checkRowTxn(off uint32, yield bool) {
	w := x.w
	if !x.checkReads || w.viol != nil {
		return
	}
	for i, col := range w.model.Cols {
		gv, gok := readCol(x.txn, column.Row{}, col, flTxn)
		wv, wok := w.model.Get(off, col.Name)
		w.stats.Reads++
		if !sameVal(col.Kind, gv, gok, wv, wok) {
			w.fail(violation(fmt.Sprintf("read-in-txn/%s", col.Kind),
				"row %d column %q read inside a Range callback: got %s, committed value is %s", off, col.Name,
				showOpt(col.Kind, gv, gok), showOpt(col.Kind, wv, wok)))
			return
		}
		if yield && i+1 < len(w.model.Cols) {
			w.sim.Yield(ptInRead)
		}
	}
}

// writesTxn issues writes inside a Range callback (no Row available: transaction accessors).
func (x *txnCtx) writesTxn(off uint32, op *Op) {
	w := x.w
	if !x.exact && len(op.Writes) > 0 {
		// concurrent worlds: only the stable rows are written by everybody (thread-private
		// rows may be deleted by their owner at any time; writing to a dead row is out of contract)
		stable := false
		for _, o := range w.conc.stable {
			stable = stable || o == off
		}
		if !stable {
			return
		}
	}
	for i := range op.Writes {
		wr := &op.Writes[i]
		switch {
		case wr.Delete:
			x.deleteAt(off)
			continue
		case wr.SetKey:
			key := wr.Val.Str()
			if x.dupKey(key) {
				continue
			}
			_, exists := w.model.KeyOf(key)
			err := x.txn.Key().Set(key)
			if (err != nil) != exists {
				w.fail(violation("key/set-result", "Key().Set(%q) err=%v, key present in committed state: %v", key, err, exists))
			}
			if !exists {
				kc, _ := w.model.KeyCol()
				x.mt.add(MOp{Kind: mPut, Off: off, Col: kc.Name, Val: MVal{S: key}})
			}
			continue
		}
		col, ok := w.model.Col(wr.Col)
		if !ok {
			continue
		}
		mv := wr.Val.M(col.Kind)
		if nk, isNum := nums[col.Kind]; isNum {
			mv.U = nk.canon(mv.U)
		}
		kind := mPut
		if wr.Merge && col.Kind.Mergeable() {
			kind = mMerge
		}
		if kind, ok = x.avoidWrite(off, col, kind); !ok {
			continue
		}
		if col.Kind == KEnum && (mv.S == enumCollision[0] || mv.S == enumCollision[1]) {
			w.noteTrigger("enum-hash-collision")
		}
		if wr.Via == 2 && kind == mPut {
			x.setAnyTxn(col, mv)
		} else {
			x.issue(column.Row{}, col, kind == mMerge, mv, 1)
		}
		x.mt.add(MOp{Kind: kind, Off: off, Col: col.Name, Val: mv})
	}
}

func (x *txnCtx) setAnyTxn(col ColSpec, v MVal) {
	a := x.txn.Any(col.Name)
	switch col.Kind {
	case KBool:
		a.Set(v.U != 0)
	case KString, KEnum:
		a.Set(v.S)
	case KRecord:
		rec := new(Rec)
		rec.UnmarshalBinary([]byte(v.S))
		a.Set(rec)
	default:
		a.Set(nums[col.Kind].toAny(v.U))
	}
}

func (x *txnCtx) deleteAll(op *Op) {
	want := x.applyFilter(op.Filter)
	if want == nil {
		panic("deleteall is only generated in single-client worlds")
	}
	for o := range want {
		if x.deleted(o) {
			if x.w.avoid["double-delete"] {
				return
			}
			x.w.noteTrigger("double-delete")
		}
		if x.wrote(o, "") {
			if x.w.avoid["put-delete"] {
				return
			}
			x.w.noteTrigger("put-delete")
		}
	}
	x.txn.DeleteAll()
	for _, o := range want.sorted() {
		x.mt.add(MOp{Kind: mDelete, Off: o})
	}
}

func showChain(chain []FStep) string {
	s := ""
	for _, f := range chain {
		s += fmt.Sprintf(".%s(%v", f.Kind, f.Names)
		if f.Pred != nil {
			s += " " + f.Pred.String()
		}
		s += ")"
	}
	if s == "" {
		return "(no filter)"
	}
	return s
}

// readOp runs a read-only selection operation with its oracle (single-client worlds).
func (x *txnCtx) readOp(op *Op) {
	w := x.w
	m := w.model
	want := x.applyFilter(op.Filter)
	w.stats.Checks++
	switch op.Kind {
	case "count":
		got := x.txn.Count()
		if want != nil && got != len(want) {
			w.fail(violation("filter/count", "Count after %s = %d, set algebra on the model gives %d", showChain(op.Filter), got, len(want)))
		}
	case "ascend":
		x.ascend(op, want)
	case "agg":
		col, ok := m.Col(op.Col)
		if !ok || !col.Kind.Numeric() || want == nil {
			x.txn.Count() // the model's selection is initialised: so must the library's be
			return
		}
		nk := nums[col.Kind]
		var vals []uint64
		exactSum := true
		for _, o := range want.sorted() {
			if _, ok := m.Get(o, op.Col); !ok {
				// known finding: aggregates ignore the presence bitmap (a selected row without a
				// value contributes its slot's stale content to Sum/Min/Max and counts in Avg)
				if w.avoid["agg-missing-value"] {
					return
				}
				w.noteTrigger("agg-missing-value")
			}
		}
		for _, o := range want.sorted() {
			if v, ok := m.Get(o, op.Col); ok {
				vals = append(vals, v.U)
				if col.Kind.Float() {
					f := nk.toF64(v.U)
					if math.IsNaN(f) || math.IsInf(f, 0) || math.Abs(f) > 1<<20 || f != math.Trunc(f) {
						exactSum = false
					}
				}
			}
		}
		if !exactSum {
			x.txn.Count() // (the selection is taken all the same)
			return        // float aggregates whose result depends on evaluation order are not asserted
		}
		sum := uint64(0)
		for i, v := range vals {
			if i == 0 {
				sum = v
			} else {
				sum = nk.mmerge("", sum, v)
			}
		}
		if len(vals) == 0 {
			sum = nk.canon(0)
		}
		gotSum := nk.sum(x.txn, op.Col)
		if gotSum != sum && !(col.Kind.Float() && nk.toF64(gotSum) == nk.toF64(sum)) {
			w.fail(violation("aggregate/sum/"+string(col.Kind), "Sum(%q) after %s = %s, over the %d selected rows holding a value it is %s", op.Col, showChain(op.Filter), nk.show(gotSum), len(vals), nk.show(sum)))
			return
		}
		if len(vals) == 0 {
			if _, ok := nk.min(x.txn, op.Col); ok && len(want) == 0 {
				w.fail(violation("aggregate/min/"+string(col.Kind), "Min(%q) reports a value over an empty selection", op.Col))
			}
			return // Avg/Min/Max over no values: undefined in the statement
		}
		wantAvg := nk.toF64(sum) / float64(len(vals))
		if got := nk.avg(x.txn, op.Col); got != wantAvg {
			w.fail(violation("aggregate/avg/"+string(col.Kind), "Avg(%q) after %s = %v, over the %d selected rows holding a value it is %v", op.Col, showChain(op.Filter), got, len(vals), wantAvg))
			return
		}
		mn, mx := vals[0], vals[0]
		for _, v := range vals[1:] {
			if nk.less(v, mn) {
				mn = v
			}
			if nk.less(mx, v) {
				mx = v
			}
		}
		if got, ok := nk.min(x.txn, op.Col); !ok || nk.toF64(got) != nk.toF64(mn) || (!col.Kind.Float() && got != mn) {
			w.fail(violation("aggregate/min/"+string(col.Kind), "Min(%q) after %s = %s,%v; over the selected rows holding a value it is %s", op.Col, showChain(op.Filter), nk.show(got), ok, nk.show(mn)))
			return
		}
		if got, ok := nk.max(x.txn, op.Col); !ok || nk.toF64(got) != nk.toF64(mx) || (!col.Kind.Float() && got != mx) {
			w.fail(violation("aggregate/max/"+string(col.Kind), "Max(%q) after %s = %s,%v; over the selected rows holding a value it is %s", op.Col, showChain(op.Filter), nk.show(got), ok, nk.show(mx)))
		}
	}
}

// ascend is the C16 oracle: the sequence visited through a sorted index must contain
// exactly the selected rows holding a value, each once, in non-decreasing value order.
func (x *txnCtx) ascend(op *Op, want sel) {
	w := x.w
	m := w.model
	var sx *SortSpec
	for i := range m.Sorts {
		if m.Sorts[i].Name == op.Col {
			sx = &m.Sorts[i]
		}
	}
	var seq []uint32
	err := x.txn.Ascend(op.Col, func(idx uint32) { seq = append(seq, idx) })
	if sx == nil {
		if err == nil {
			w.fail(violation("ascend/missing-index", "Ascend(%q) on a missing index returned nil", op.Col))
		}
		return
	}
	if err != nil {
		w.fail(violation("ascend/error", "Ascend(%q) returned %v", op.Col, err))
		return
	}
	if want == nil {
		return
	}
	exp := map[uint32]bool{}
	for o := range want {
		if _, ok := m.Get(o, sx.Col); ok {
			exp[o] = true
		}
	}
	seen := map[uint32]bool{}
	prev := ""
	for i, o := range seq {
		if seen[o] {
			w.fail(violation("ascend/duplicate", "Ascend(%q) visited row %d twice", op.Col, o))
			return
		}
		seen[o] = true
		if !exp[o] {
			if _, live := m.Rows[o]; !live {
				class := "ascend/dead-row/unfiltered"
				if len(op.Filter) > 0 || x.filtered {
					// (a Union with a column's presence bitmap can select what a dead row left behind:
					// part of the known finding "store and delete of one row in one transaction")
					class = "ascend/dead-row/filtered"
				}
				w.fail(violation(class, "Ascend(%q) after %s visited offset %d which holds no live row", op.Col, showChain(op.Filter), o))
				return
			}
			w.fail(violation("ascend/extra", "Ascend(%q) visited row %d which is not a selected row holding a value in %q", op.Col, o, sx.Col))
			return
		}
		v, _ := m.Get(o, sx.Col)
		if i > 0 && v.S < prev {
			w.fail(violation("ascend/order", "Ascend(%q) visited %q (row %d) after %q", op.Col, v.S, o, prev))
			return
		}
		prev = v.S
	}
	if len(seq) != len(exp) {
		for _, o := range want.sorted() {
			if exp[o] && !seen[o] {
				v, _ := m.Get(o, sx.Col)
				w.fail(violation("ascend/missing", "Ascend(%q) visited %d of %d selected rows holding a value; row %d (%q) was skipped", op.Col, len(seq), len(exp), o, v.S))
				return
			}
		}
	}
}
