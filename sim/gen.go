package colsim

import (
	"fmt"
	"math"

	"github.com/zeebo/xxh3"
)

// seqProfile steers the single-client history generator for one property.
type seqProfile struct {
	minSteps, maxSteps                                                                                   int
	wTxn, wCreateCol, wCreateIndex, wDropIndex, wCreateSort, wDropSort, wCreateTrig, wDropTrig, wRestart int
	wDropCol                                                                                             int // drop a late column (no computed columns on it); a later createcol may reuse the name
	// op weights inside a transaction
	wInsert, wAt, wRange, wDelete, wDeleteAll, wCount, wAgg, wAscend, wKey int
	pAbort, pFailInsert, pMerge                                            float64
	pKeyCol                                                                float64 // schema has a key column
	maxCols                                                                int
	indexes, sorts, triggers                                               bool
	multiBlock                                                             float64 // probability of a prefilled multi-block layout
	smallStrings                                                           bool    // small alphabet for strings (forces equal keys)
	filters                                                                bool
	forceKinds                                                             []Kind
}

var capacities = []int{1, 64, 1000, 1024, 16384, 20000, 70000}

var strategicOffsets = []uint32{0, 1, 2, 63, 64, 65, 127, 128, 130, 300, 4095, 4096, 16382, 16383, 16384, 16385, 16447, 16448, 20000, 32767, 32768, 32769, 40000, 49151, 49152, 49153, 60000, 65535}

// avoidance switches for triggers of known findings / out-of-contract inputs
type avoid struct {
	putThenDelete       bool // put and delete of one row in one transaction (stale value left behind)
	failInCommit        bool // failing insert inside a transaction that commits
	mergeAfterReuse     bool // merge into a column the (reused) row holds nothing in
	lenMergeThenPut     bool // length-changing merge followed by a put on the same row+column in one transaction
	lenMergeSplit       bool // ... and the column's buffer ends in a later run of the same block (the stored value is wrong too)
	dupKeyInTxn         bool // two inserts of one key in one transaction
	enumBeyond0         bool
	lateColSparse       bool
	aggStale            bool
	unionAfterClear     bool
	doubleDelete        bool
	phantomReserved     bool
	snapshotReserved    bool
	concurrentKeyInsert bool
	ttlDuringPass       bool
	schemaChange        bool
	blockGrowth         bool
	enumBesideReaders   bool
	enumCollision       bool
	rollbackInsert      bool
	sortDupKeys         bool
	rekey               bool
}

func (a avoid) list() (out []string) {
	add := func(on bool, n string) {
		if on {
			out = append(out, n)
		}
	}
	add(a.putThenDelete, "put-delete")
	add(a.failInCommit, "fail-in-commit")
	add(a.mergeAfterReuse, "merge-absent")
	add(a.lenMergeThenPut, "len-merge-put")
	add(a.lenMergeSplit, "len-merge-split")
	add(a.dupKeyInTxn, "dup-key-in-txn")
	add(a.aggStale, "agg-missing-value")
	add(a.unionAfterClear, "union-after-clear")
	add(a.doubleDelete, "double-delete")
	add(a.phantomReserved, "phantom-reserved")
	add(a.snapshotReserved, "snapshot-reserved")
	add(a.concurrentKeyInsert, "concurrent-key-insert")
	add(a.ttlDuringPass, "ttl-change-during-pass")
	add(a.schemaChange, "schema-change-beside-activity")
	add(a.blockGrowth, "growth-beside-readers")
	add(a.enumBesideReaders, "enum-write-beside-readers")
	add(a.enumCollision, "enum-hash-collision")
	add(a.rollbackInsert, "rollback-insert")
	return
}

type gen struct {
	r         *Rng
	p         seqProfile
	cs        *Case
	cols      []ColSpec // columns existing at the current point of the history (incl. late ones)
	indexes   []IndexSpec
	sorts     []SortSpec
	trigs     []string
	dropped   []string // names of dropped columns (a later createcol may reuse one)
	droppedIx []string // names of dropped bitmap indexes (a later createindex may reuse one)
	av        avoid
	nameSeq   int
	keys      []string
	uniq      uint64
}

func (g *gen) name(prefix string) string {
	g.nameSeq++
	return fmt.Sprintf("%s%d", prefix, g.nameSeq)
}

var enumAlphabet = []string{"", "a", "b", "red", "green", "blue", "a-longer-enum-value", "\x00", "é"}

// enumCollision is a pair of distinct strings whose 32-bit truncated xxh3 hashes are
// equal (found by a birthday search at start-up, ~10^5 hashes): the enum column interns
// values by that hash, so the two read back as each other (known finding, C01).
var enumCollision = findEnumCollision()

func findEnumCollision() [2]string {
	seen := make(map[uint32]string, 1<<17)
	for i := 0; ; i++ {
		s := fmt.Sprintf("enum-%d", i)
		h := uint32(xxh3.HashString(s))
		if prev, ok := seen[h]; ok {
			return [2]string{prev, s}
		}
		seen[h] = s
	}
}

var smallAlphabet = []string{"a", "b", "c", "d", "e"}

// genVal draws a value for a column kind from a boundary pool or at random.
func (g *gen) genVal(c ColSpec) Val {
	r := g.r
	switch c.Kind {
	case KBool:
		return Val{U: uint64(r.Intn(2))}
	case KEnum:
		if g.p.smallStrings {
			return strVal(smallAlphabet[r.Intn(len(smallAlphabet))])
		}
		if !g.av.enumCollision && r.Chance(0.3) {
			return strVal(enumCollision[r.Intn(2)]) // known finding: colliding enum strings
		}
		return strVal(enumAlphabet[r.Intn(len(enumAlphabet))])
	case KKey:
		return strVal(g.keys[r.Intn(len(g.keys))])
	case KString:
		if g.p.smallStrings {
			return strVal(smallAlphabet[r.Intn(len(smallAlphabet))])
		}
		pick := r.Intn(12)
		if (c.Merge == "concat" || c.Merge == "short") && pick == 1 {
			pick = 5 // merged results must stay below the 64KB limit of a stored string
		}
		switch pick {
		case 0:
			return strVal("")
		case 1:
			return Val{B: []byte{byte('a' + r.Intn(26)), byte('0' + r.Intn(10))}, L: []int{65535, 65534, 32768, 300, 4096}[r.Intn(5)]}
		case 2:
			return strVal("\x00\xff\xfe binary \x80")
		case 3, 4:
			return strVal(smallAlphabet[r.Intn(len(smallAlphabet))])
		}
		g.uniq++
		return strVal(fmt.Sprintf("s%d-%x", g.uniq, r.Uint64()&0xffff))
	case KRecord:
		g.uniq++
		return Val{B: recBytes(uint32(r.Intn(1000)), fmt.Sprintf("r%d", g.uniq%50))}
	}
	nk := nums[c.Kind]
	var u uint64
	switch r.Intn(10) {
	case 0:
		u = 0
	case 1:
		u = ^uint64(0) // -1 / max unsigned / NaN pattern for floats
	case 2:
		u = 1 << (nk.bits - 1) // min signed / -0 for floats
	case 3:
		u = 1<<(nk.bits-1) - 1 // max signed / NaN for floats
	case 4:
		if c.Kind.Float() {
			fs := []float64{math.Inf(1), math.Inf(-1), math.SmallestNonzeroFloat64, math.MaxFloat32, 0.1, -2.5, 1e300}
			f := fs[r.Intn(len(fs))]
			if c.Kind == KFloat32 {
				u = uint64(math.Float32bits(float32(f)))
			} else {
				u = math.Float64bits(f)
			}
		} else {
			u = 1
		}
	default:
		if c.Kind.Float() {
			f := float64(r.Intn(2001) - 1000)
			if c.Kind == KFloat32 {
				u = uint64(math.Float32bits(float32(f)))
			} else {
				u = math.Float64bits(f)
			}
		} else if r.Chance(0.5) {
			u = uint64(int64(r.Intn(2001) - 1000))
		} else {
			u = r.Uint64()
		}
	}
	return Val{U: nk.canon(u)}
}

// genSchema draws the schema of a run.
func (g *gen) genSchema() {
	r := g.r
	g.cols = []ColSpec{{Name: "expire", Kind: KInt64}}
	pool := append([]Kind{}, numericKinds...)
	pool = append(pool, KBool, KString, KString, KEnum, KRecord)
	n := r.Range(2, g.p.maxCols)
	used := map[Kind]int{}
	add := func(k Kind) {
		c := ColSpec{Name: fmt.Sprintf("%s_%d", k, used[k]), Kind: k}
		used[k]++
		switch {
		case k.Numeric() && r.Chance(0.25):
			c.Merge = "affine"
		case k == KString && r.Chance(0.5):
			c.Merge = "concat"
		case k == KRecord && r.Chance(0.7):
			c.Merge = "sum"
		}
		g.cols = append(g.cols, c)
	}
	for _, k := range g.p.forceKinds {
		add(k)
	}
	for len(g.cols)-1 < n {
		add(pool[r.Intn(len(pool))])
	}
	if r.Chance(g.p.pKeyCol) {
		g.cols = append(g.cols, ColSpec{Name: "pk", Kind: KKey})
		nk := r.Range(3, 6)
		for i := 0; i < nk; i++ {
			g.keys = append(g.keys, fmt.Sprintf("k%d", i))
		}
		// unusual input: the empty string is a valid key (own PRNG stream)
		if g.cs != nil && NewRng(g.cs.Seed, uint64(g.cs.Run), 81).Chance(0.25) {
			kr := NewRng(g.cs.Seed, uint64(g.cs.Run), 83)
			g.keys[kr.Intn(len(g.keys))] = ""
		}
	}
	g.shortMerges()
}

// shortMerges turns some of the concatenating string merges into "keep the shorter one"
// (own PRNG stream): a user merge whose result can be shorter than the delta.
func (g *gen) shortMerges() {
	if g.cs == nil {
		return
	}
	mr := NewRng(g.cs.Seed, uint64(g.cs.Run), 86)
	for i := range g.cols {
		if g.cols[i].Kind == KString && g.cols[i].Merge == "concat" && mr.Chance(0.3) {
			g.cols[i].Merge = "short"
		}
	}
}

func (g *gen) hasKey() bool {
	for _, c := range g.cols {
		if c.Kind == KKey {
			return true
		}
	}
	return false
}

func (g *gen) valueCols() []ColSpec {
	var out []ColSpec
	for _, c := range g.cols {
		if c.Kind != KKey {
			out = append(out, c)
		}
	}
	return out
}

func (g *gen) genPred(c ColSpec) PredSpec {
	r := g.r
	switch {
	case c.Kind == KBool:
		return PredSpec{Fam: "btrue"}
	case c.Kind.Float():
		return PredSpec{Fam: "fgt", F: float64(r.Intn(1000) - 500)}
	case c.Kind.Numeric():
		if r.Chance(0.5) {
			return PredSpec{Fam: "igt", I: int64(r.Intn(1000) - 500)}
		}
		return PredSpec{Fam: "ugt", I: int64(r.Intn(1000))}
	case c.Kind == KRecord:
		return PredSpec{Fam: "spre", S: "\x00\x00\x01"}
	}
	if r.Chance(0.5) {
		return PredSpec{Fam: "seq", S: smallAlphabet[r.Intn(len(smallAlphabet))]}
	}
	return PredSpec{Fam: "spre", S: string(rune('b' + r.Intn(20)))}
}

func (g *gen) genIndex() *IndexSpec {
	vc := g.valueCols()
	c := vc[g.r.Intn(len(vc))]
	if c.Name == "expire" && len(vc) > 1 {
		c = vc[1+g.r.Intn(len(vc)-1)]
	}
	return &IndexSpec{Name: g.name("ix"), Col: c.Name, Pred: g.genPred(c)}
}

// genWrites draws the writes performed on one row.
func (g *gen) genWrites(n int, isInsert bool) []Write {
	r := g.r
	vc := g.valueCols()
	var out []Write
	for i := 0; i < n; i++ {
		c := vc[r.Intn(len(vc))]
		w := Write{Col: c.Name, Val: g.genVal(c), Via: r.Weighted([]int{6, 3, 1})}
		if c.Kind.Mergeable() && r.Chance(g.p.pMerge) {
			w.Merge = true
			w.Via = r.Intn(2)
			if c.Kind.Float() {
				// deltas stay exactly representable so that the model's arithmetic is the library's
				f := float64(r.Intn(64) - 32)
				if c.Kind == KFloat32 {
					w.Val = Val{U: uint64(math.Float32bits(float32(f)))}
				} else {
					w.Val = Val{U: math.Float64bits(f)}
				}
			}
		}
		out = append(out, w)
	}
	return out
}

func (g *gen) genFilter() []FStep {
	r := g.r
	if !g.p.filters {
		return nil
	}
	n := r.Weighted([]int{3, 4, 3, 1})
	var out []FStep
	names := func(k int) []string {
		var ns []string
		for i := 0; i < k; i++ {
			switch {
			case len(g.indexes) > 0 && r.Chance(0.6):
				ns = append(ns, g.indexes[r.Intn(len(g.indexes))].Name)
			case r.Chance(0.07):
				ns = append(ns, "nosuch")
			default:
				ns = append(ns, g.cols[r.Intn(len(g.cols))].Name)
			}
		}
		return ns
	}
	for i := 0; i < n; i++ {
		var f FStep
		switch r.Weighted([]int{5, 3, 3, 3, 2, 2, 2, 2, 2}) {
		case 0:
			f = FStep{Kind: "with", Names: names(r.Range(1, 2))}
		case 1:
			f = FStep{Kind: "without", Names: names(r.Range(1, 2))}
		case 2:
			f = FStep{Kind: "union", Names: names(r.Range(1, 3))}
			if i == 0 && f.Names[0] == "nosuch" {
				f.Names[0] = g.cols[0].Name // a leading Union whose first name is missing is not asserted
			}
		case 3:
			f = FStep{Kind: "withunion", Names: names(r.Range(1, 3))}
			if i == 0 && f.Names[0] == "nosuch" {
				f.Names[0] = g.cols[0].Name
			}
		default:
			c := g.cols[r.Intn(len(g.cols))]
			kinds := []string{"withvalue"}
			if c.Kind.Numeric() {
				kinds = []string{"withvalue", "withint", "withuint", "withfloat", "withfloat", "withint"}
			} else if c.Kind.Textual() {
				kinds = []string{"withvalue", "withstring", "withstring"}
			}
			if r.Chance(0.1) {
				kinds = []string{"withint", "withuint", "withfloat", "withstring", "withvalue"}
			}
			p := g.genPred(c)
			if c.Kind.Numeric() {
				p = PredSpec{Fam: "num", I: int64(r.Intn(200) - 100), F: float64(r.Intn(200) - 100)}
			}
			if c.Kind == KRecord {
				p = PredSpec{Fam: "seq", I: int64(r.Intn(1000)), S: "x"}
			}
			name := c.Name
			if r.Chance(0.05) {
				name = "nosuch"
			}
			f = FStep{Kind: kinds[r.Intn(len(kinds))], Names: []string{name}, Pred: &p}
		}
		out = append(out, f)
	}
	return out
}

// genTxn draws one transaction body.
func (g *gen) genTxn() *TxnProg {
	r := g.r
	p := g.p
	t := &TxnProg{Abort: r.Chance(p.pAbort)}
	nops := r.Range(1, 6)
	keyed := g.hasKey()
	inserted := false
	selected := 0
	keysUsed := map[string]bool{}
	noDeleteWrites := false
	if g.av.putThenDelete {
		// a transaction either deletes existing rows or writes to them, never both
		if r.Chance(0.3) {
			p.wAt, p.wRange = 0, 0
		} else {
			p.wDelete, p.wDeleteAll = 0, 0
			noDeleteWrites = true
		}
	}
	for i := 0; i < nops; i++ {
		wts := []int{p.wInsert, p.wAt, p.wRange, p.wDelete, p.wDeleteAll, p.wCount, p.wAgg, p.wAscend, 0}
		if keyed {
			wts[0] = 0
			wts[8] = p.wKey
		}
		if inserted || selected >= 3 {
			// selection operations only before the first insert (the selection would hold the
			// transaction's own reservation), and at most three per transaction: the selection
			// taken by the first one persists and is narrowed/widened further by the later ones
			wts[2], wts[4], wts[5], wts[6], wts[7] = 0, 0, 0, 0, 0
		}
		var op Op
		switch r.Weighted(wts) {
		case 0:
			op = Op{Kind: "insert", Writes: g.genWrites(r.Range(0, 5), true)}
			if r.Chance(p.pFailInsert) && (!g.av.failInCommit || t.Abort) {
				op.Fail = true
			}
			if g.av.rollbackInsert && t.Abort {
				op.Fail = true // a rolled-back transaction holds no successful insert
			}
			inserted = true
		case 1:
			k := r.Intn(64)
			op = Op{Kind: "at", Target: Target{Mode: "live", K: k}, Writes: g.genWrites(r.Range(0, 4), false)}
			if r.Chance(0.1) && !noDeleteWrites && !g.av.putThenDelete {
				op.Writes = append(op.Writes, Write{Delete: true})
			}
		case 2:
			op = Op{Kind: "range", Filter: g.genFilter(), Limit: r.Intn(4)}
			if r.Chance(0.5) {
				op.Writes = g.genWrites(r.Range(1, 2), false)
			}
			if r.Chance(0.15) && !g.av.putThenDelete {
				op.Writes = append(op.Writes[:0:0], Write{Delete: true})
			}
			selected++
		case 3:
			op = Op{Kind: "delete", Target: Target{Mode: "live", K: r.Intn(64)}}
		case 4:
			op = Op{Kind: "deleteall", Filter: g.genFilter()}
			selected++
		case 5:
			op = Op{Kind: "count", Filter: g.genFilter()}
			selected++
		case 6:
			op = Op{Kind: "agg", Filter: g.genFilter(), Col: g.cols[r.Intn(len(g.cols))].Name}
			selected++
		case 7:
			op = Op{Kind: "ascend", Filter: g.genFilter()}
			if len(g.sorts) > 0 {
				op.Col = g.sorts[r.Intn(len(g.sorts))].Name
			} else {
				op.Col = "nosort"
			}
			selected++
		case 8:
			key := g.keys[r.Intn(len(g.keys))]
			kinds := []string{"insertkey", "upsertkey", "upsertkey", "querykey", "deletekey"}
			if g.av.putThenDelete {
				if noDeleteWrites {
					kinds = []string{"insertkey", "upsertkey", "upsertkey", "querykey"}
				} else {
					kinds = []string{"insertkey", "deletekey"}
				}
			}
			op = Op{Kind: kinds[r.Intn(len(kinds))], Key: key}
			if g.av.dupKeyInTxn && keysUsed[key] {
				continue
			}
			keysUsed[key] = true
			switch op.Kind {
			case "insertkey", "upsertkey":
				op.Writes = g.genWrites(r.Range(0, 3), true)
				if r.Chance(p.pFailInsert) && (!g.av.failInCommit || t.Abort) {
					op.Fail = true
				}
				if g.av.rollbackInsert && t.Abort {
					op.Fail = true
				}
				if sk := NewRng(g.cs.Seed, uint64(g.cs.Run), uint64(len(t.Ops)), g.uniq, 95); sk.Chance(0.15) {
					// the callback also writes the row's own key (an object that carries its key)
					op.Writes = append(op.Writes, Write{SetKey: true, Val: strVal(key)})
				} else if g.cs.World == "seq" && sk.Chance(0.15) {
					// ... or a draft key which the key of the call then replaces: the row's key is
					// written twice in the same commit and only the last one may resolve afterwards
					if dk := g.keys[sk.Intn(len(g.keys))]; dk != key && !keysUsed[dk] {
						keysUsed[dk] = true
						op.Writes = append(op.Writes, Write{SetKey: true, Draft: true, Val: strVal(dk)})
					}
				}
				inserted = true
			case "querykey":
				op.Writes = g.genWrites(r.Range(0, 3), false)
				if r.Chance(0.2) {
					nk := g.keys[r.Intn(len(g.keys))]
					if !(g.av.dupKeyInTxn && keysUsed[nk]) {
						keysUsed[nk] = true
						op.Writes = append(op.Writes, Write{SetKey: true, Val: strVal(nk)})
					}
				}
			}
		}
		if op.Kind != "" {
			t.Ops = append(t.Ops, op)
		}
	}
	return t
}

// emptiedTopBlockTemplate rewrites a single-client case into the history "the collection
// once reached a second block, every row of that block was deleted, a column is created,
// and the collection grows into the block again": block 0 is full except for one to three
// holes (the row count stays below the block boundary), block 1 holds a few rows that the
// first transaction deletes; then a late column, then inserts that fill the holes and go on
// into block 1, every one storing into the late column and the old ones.
func emptiedTopBlockTemplate(cs *Case, seed uint64, run int) {
	r := NewRng(seed, uint64(run), 102)
	pf := &Prefill{Blocks: 2, KeepFull: []int{0}}
	for i, n := 0, r.Range(1, 3); i < n; i++ {
		pf.Holes = append(pf.Holes, uint32(r.Intn(1<<14)))
	}
	top := []uint32{1 << 14, 1<<14 + 1, 1<<14 + 63, 1<<14 + 64, 1<<14 + 4095, 1<<15 - 1}
	for _, o := range top {
		if r.Chance(0.5) {
			pf.Survivors = append(pf.Survivors, o)
		}
	}
	if len(pf.Survivors) == 0 {
		pf.Survivors = []uint32{1 << 14}
	}
	cs.Cfg.Prefill = pf
	cs.Cfg.Capacity = []int{1, 64, 1024, 16384}[r.Intn(4)]
	del := &TxnProg{}
	for _, o := range pf.Survivors {
		del.Ops = append(del.Ops, Op{Kind: "delete", Target: Target{Mode: "abs", K: int(o)}})
	}
	kinds := append([]Kind{}, numericKinds...)
	kinds = append(kinds, KBool, KString, KEnum)
	late := ColSpec{Name: "late_top", Kind: kinds[r.Intn(len(kinds))]}
	g := &gen{r: r, cs: cs, av: avoid{enumCollision: true}}
	g.cols = append(append([]ColSpec{}, cs.Schema...), late)
	steps := []Step{{Kind: "txn", Txn: del}}
	if r.Chance(0.3) {
		steps = append(steps, Step{Kind: "restart", Arg: r.Intn(3)})
	}
	steps = append(steps, Step{Kind: "createcol", Col: &late})
	for t, nt := 0, r.Range(1, 3); t < nt; t++ {
		ins := &TxnProg{}
		for i, n := 0, r.Range(2, 5); i < n; i++ {
			op := Op{Kind: "insert"}
			for _, c := range g.cols {
				if c.Name != "expire" && c.Kind != KKey && c.Kind != KRecord && (c.Name == late.Name || r.Chance(0.5)) {
					op.Writes = append(op.Writes, Write{Col: c.Name, Val: g.genVal(c), Via: r.Intn(3)})
				}
			}
			ins.Ops = append(ins.Ops, op)
		}
		steps = append(steps, Step{Kind: "txn", Txn: ins})
	}
	cs.Steps = steps
	cs.Indexes = nil
}

// genSeq materialises a single-client history.
func genSeq(prop string, seed uint64, run int, p seqProfile, av avoid) *Case {
	r := NewRng(seed, uint64(run), 1)
	g := &gen{r: r, p: p, av: av}
	cs := &Case{Prop: prop, World: "seq", Seed: seed, Run: run}
	g.cs = cs
	cs.Cfg.Capacity = capacities[r.Intn(len(capacities))]
	g.genSchema()
	cs.Schema = append([]ColSpec{}, g.cols...)
	cs.Cfg.KeyAlpha = g.keys
	cs.Cfg.Avoid = av.list()
	if r.Chance(p.multiBlock) {
		pf := &Prefill{Blocks: r.Range(1, 4)}
		for _, o := range strategicOffsets {
			if int(o>>14) < pf.Blocks && r.Chance(0.4) {
				pf.Survivors = append(pf.Survivors, o)
			}
		}
		if r.Chance(0.3) {
			// last block full except for one or two holes: the next inserts cross into a new block
			b := pf.Blocks - 1
			pf.KeepFull = []int{b}
			pf.Holes = []uint32{uint32(b)<<14 + uint32(r.Intn(1<<14))}
			if r.Chance(0.5) {
				pf.Holes = append(pf.Holes, uint32(b)<<14+16383)
			}
		}
		if g.hasKey() && len(pf.KeepFull) > 0 && pf.KeepFull[0] != 0 {
			// keyed rows are created by key operations at the lowest free offsets: only a full
			// FIRST block pushes them beyond it
			pf.KeepFull, pf.Holes = []int{0}, []uint32{uint32(r.Intn(1 << 14))}
			if pf.Blocks > 2 {
				pf.Blocks = 2
			}
		}
		cs.Cfg.Prefill = pf
	}
	if p.indexes {
		for i, n := 0, r.Intn(3); i < n; i++ {
			ix := g.genIndex()
			g.indexes = append(g.indexes, *ix)
			cs.Indexes = append(cs.Indexes, *ix)
		}
	}
	nsteps := r.Range(p.minSteps, p.maxSteps)
	for i := 0; i < nsteps; i++ {
		wts := []int{p.wTxn, p.wCreateCol, p.wCreateIndex, p.wDropIndex, p.wCreateSort, p.wDropSort, p.wCreateTrig, p.wDropTrig, p.wRestart, p.wDropCol}
		switch r.Weighted(wts) {
		case 0:
			if cr := NewRng(seed, uint64(run), uint64(i), 106); cr.Chance(0.06) {
				// one delete through the collection-level convenience call, of a live row or of
				// an offset/key that holds nothing (own stream)
				op := Op{Kind: "delete", Target: Target{K: cr.Intn(64)}}
				if cr.Chance(0.5) {
					op.Target.Mode = "dead"
				}
				if g.hasKey() && cr.Chance(0.5) {
					op = Op{Kind: "deletekey", Key: g.keys[cr.Intn(len(g.keys))]}
				} else if cr.Chance(0.5) {
					// ... or one insert / one update through Collection.Insert / Collection.QueryAt
					if g.hasKey() {
						op = Op{Kind: "at", Target: Target{K: cr.Intn(64)}, Writes: g.genWrites(cr.Range(1, 3), false)}
					} else if cr.Chance(0.5) {
						op = Op{Kind: "insert", Writes: g.genWrites(cr.Range(0, 4), true)}
					} else {
						op = Op{Kind: "at", Target: Target{K: cr.Intn(64)}, Writes: g.genWrites(cr.Range(1, 3), false)}
					}
				}
				cs.Steps = append(cs.Steps, Step{Kind: "txn", Txn: &TxnProg{Direct: true, Ops: []Op{op}}})
				continue
			}
			cs.Steps = append(cs.Steps, Step{Kind: "txn", Txn: g.genTxn()})
		case 1:
			if len(g.cols) >= 24 {
				continue
			}
			pool := append([]Kind{}, numericKinds...)
			pool = append(pool, KBool, KString, KEnum, KRecord)
			k := pool[r.Intn(len(pool))]
			if dr := NewRng(seed, uint64(run), uint64(i), 105); len(g.cols) > 1 && dr.Chance(0.2) {
				// a CreateColumn under a name that is taken (any kind): refused, and nothing changes
				c := ColSpec{Name: g.cols[dr.Intn(len(g.cols))].Name, Kind: pool[dr.Intn(len(pool))]}
				cs.Steps = append(cs.Steps, Step{Kind: "createcol", Col: &c, Arg: 1})
				continue
			}
			c := ColSpec{Name: g.name("late_" + string(k)), Kind: k}
			if k == KString && r.Chance(0.5) {
				c.Merge = "concat"
			}
			if len(g.dropped) > 0 && r.Chance(0.6) {
				// a new column under the name of a dropped one (possibly of another type): nothing of
				// the old column may show through
				j := r.Intn(len(g.dropped))
				c.Name = g.dropped[j]
				g.dropped = append(g.dropped[:j], g.dropped[j+1:]...)
			}
			g.cols = append(g.cols, c)
			cs.Steps = append(cs.Steps, Step{Kind: "createcol", Col: &c})
		case 2:
			ix := g.genIndex()
			if nr := NewRng(seed, uint64(run), uint64(i), 96); len(g.droppedIx) > 0 && nr.Chance(0.6) {
				// a new index (other column, other predicate) under the name of a dropped one
				j := nr.Intn(len(g.droppedIx))
				ix.Name = g.droppedIx[j]
				g.droppedIx = append(g.droppedIx[:j], g.droppedIx[j+1:]...)
			}
			g.indexes = append(g.indexes, *ix)
			cs.Steps = append(cs.Steps, Step{Kind: "createindex", Index: ix})
		case 3:
			if len(g.indexes) == 0 {
				continue
			}
			k := r.Intn(len(g.indexes))
			cs.Steps = append(cs.Steps, Step{Kind: "dropindex", Name: g.indexes[k].Name})
			g.droppedIx = append(g.droppedIx, g.indexes[k].Name)
			g.indexes = append(g.indexes[:k], g.indexes[k+1:]...)
		case 4:
			var sc []ColSpec
			for _, c := range g.cols {
				if c.Kind == KString || c.Kind == KEnum {
					sc = append(sc, c)
				}
			}
			if len(sc) == 0 || len(g.sorts) >= 3 {
				continue
			}
			sx := SortSpec{Name: g.name("sx"), Col: sc[r.Intn(len(sc))].Name}
			g.sorts = append(g.sorts, sx)
			cs.Steps = append(cs.Steps, Step{Kind: "createsort", Sort: &sx})
		case 5:
			if len(g.sorts) == 0 {
				continue
			}
			k := r.Intn(len(g.sorts))
			cs.Steps = append(cs.Steps, Step{Kind: "dropsort", Name: g.sorts[k].Name})
			g.sorts = append(g.sorts[:k], g.sorts[k+1:]...)
		case 6:
			var tc []ColSpec
			for _, c := range g.cols {
				if c.Kind != KBool && c.Kind != KKey {
					tc = append(tc, c)
				}
			}
			if len(tc) == 0 || len(g.trigs) >= 3 {
				continue
			}
			n := g.name("tg")
			g.trigs = append(g.trigs, n)
			cs.Steps = append(cs.Steps, Step{Kind: "createtrigger", Name: n, Col: &ColSpec{Name: tc[r.Intn(len(tc))].Name}})
		case 7:
			if len(g.trigs) == 0 {
				continue
			}
			k := r.Intn(len(g.trigs))
			cs.Steps = append(cs.Steps, Step{Kind: "droptrigger", Name: g.trigs[k]})
			g.trigs = append(g.trigs[:k], g.trigs[k+1:]...)
		case 8:
			cs.Steps = append(cs.Steps, Step{Kind: "restart", Arg: r.Intn(1 << 16)})
		case 9:
			// drop a column nothing is computed from
			var dc []int
			for i, c := range g.cols {
				used := c.Name == "expire" || c.Kind == KKey
				for _, ix := range g.indexes {
					used = used || ix.Col == c.Name
				}
				for _, sx := range g.sorts {
					used = used || sx.Col == c.Name
				}
				if !used && len(g.trigs) == 0 {
					dc = append(dc, i)
				}
			}
			if len(dc) == 0 || len(g.cols) <= 2 {
				continue
			}
			i := dc[r.Intn(len(dc))]
			cs.Steps = append(cs.Steps, Step{Kind: "dropcol", Name: g.cols[i].Name})
			g.dropped = append(g.dropped, g.cols[i].Name)
			g.cols = append(g.cols[:i:i], g.cols[i+1:]...)
		}
	}
	// template (own stream): a read-only transaction fails, and with no transaction in between
	// an index / a column it resolved is dropped and re-created under the same name
	if tr := NewRng(seed, uint64(run), 98); tr.Chance(0.1) {
		if p.wDropIndex > 0 && len(g.indexes) > 0 {
			old := g.indexes[tr.Intn(len(g.indexes))]
			nix := g.genIndex()
			nix.Name = old.Name
			cs.Steps = append(cs.Steps,
				Step{Kind: "txn", Txn: &TxnProg{Abort: true, Ops: []Op{{Kind: "count", Filter: []FStep{{Kind: "with", Names: []string{old.Name}}}}}}},
				Step{Kind: "dropindex", Name: old.Name},
				Step{Kind: "createindex", Index: nix},
				Step{Kind: "txn", Txn: &TxnProg{Ops: []Op{{Kind: "count", Filter: []FStep{{Kind: "with", Names: []string{old.Name}}}}}}})
			for k := range g.indexes {
				if g.indexes[k].Name == old.Name {
					g.indexes[k] = *nix
				}
			}
		} else if p.wDropCol > 0 {
			for i := len(g.cols) - 1; i >= 0; i-- {
				c := g.cols[i]
				used := c.Name == "expire" || c.Kind == KKey
				for _, ix := range g.indexes {
					used = used || ix.Col == c.Name
				}
				if used || len(g.sorts) > 0 || len(g.trigs) > 0 {
					continue
				}
				nc := ColSpec{Name: c.Name, Kind: []Kind{KInt64, KString, KFloat64, KBool}[tr.Intn(4)]}
				cs.Steps = append(cs.Steps,
					Step{Kind: "txn", Txn: &TxnProg{Abort: true, Ops: []Op{{Kind: "at", Target: Target{Mode: "live", K: tr.Intn(64)}}}}},
					Step{Kind: "dropcol", Name: c.Name},
					Step{Kind: "createcol", Col: &nc},
					Step{Kind: "txn", Txn: &TxnProg{Ops: []Op{{Kind: "at", Target: Target{Mode: "live", K: tr.Intn(64)}}}}})
				g.cols[i] = nc
				break
			}
		}
	}
	// fault: a quarter of the failing transactions panic instead of returning an error (own stream)
	pr := NewRng(seed, uint64(run), 91)
	for i := range cs.Steps {
		if t := cs.Steps[i].Txn; t != nil && t.Abort && pr.Chance(0.25) {
			t.Panic = true
		}
	}
	return cs
}
