package colsim

// knownAvoid returns the generator avoidance switches for a run: triggers of known
// findings that belong to other properties are always avoided; the checked property's own
// are avoided in 80% of the runs and allowed in 20% (which re-confirms the finding).
func knownAvoid(prop string, seed uint64, run int) avoid {
	return avoid{putThenDelete: true, failInCommit: true, mergeAfterReuse: true, lenMergeThenPut: true, dupKeyInTxn: true,
		enumBeyond0: true, lateColSparse: true, aggStale: true, rollbackInsert: true, sortDupKeys: true, rekey: false, unionAfterClear: true, doubleDelete: true, phantomReserved: true, snapshotReserved: true}
}
