package colsim

import (
	"os"
	"strings"
)

// ownTriggers maps a property to the known-finding triggers its own check explores: they
// are avoided in 80% of that property's runs and allowed in 20% (which re-confirms the
// finding); every other property's check always steers around them.
var ownTriggers = map[string][]string{
	"C01": {"len-merge-split", "enum-hash-collision"},
	"C02": {"fail-in-commit", "rollback-insert", "phantom-reserved"},
	"C05": {"len-merge-put"},
	"C08": {"snapshot-reserved"},
	"C11": {"put-delete", "merge-absent"},
	"C16": {"put-delete"}, // leaves sorted-index entries for dead rows behind: Ascend must still skip them
	"C12": {"dup-key-in-txn", "concurrent-key-insert"},
	"C17": {"ttl-change-during-pass"},
	"C18": {"schema-change-beside-activity", "growth-beside-readers", "enum-write-beside-readers"},
	"C19": {"double-delete"},
}

// knownAvoid returns the generator/executor avoidance switches for a run.
func knownAvoid(prop string, seed uint64, run int) avoid {
	a := avoid{putThenDelete: true, failInCommit: true, mergeAfterReuse: true, lenMergeThenPut: true, lenMergeSplit: true, dupKeyInTxn: true,
		rollbackInsert: true, doubleDelete: true, phantomReserved: true,
		snapshotReserved: true, concurrentKeyInsert: true, ttlDuringPass: true, schemaChange: true, blockGrowth: true, enumBesideReaders: true, enumCollision: true}
	r := NewRng(seed, uint64(run), 1234)
	allow := func(name string) {
		switch name {
		case "put-delete":
			a.putThenDelete = false
		case "fail-in-commit":
			a.failInCommit = false
		case "merge-absent":
			a.mergeAfterReuse = false
		case "len-merge-put":
			a.lenMergeThenPut = false
		case "len-merge-split":
			a.lenMergeSplit = false
		case "dup-key-in-txn":
			a.dupKeyInTxn = false
		case "rollback-insert":
			a.rollbackInsert = false
		case "double-delete":
			a.doubleDelete = false
		case "phantom-reserved":
			a.phantomReserved = false
		case "snapshot-reserved":
			a.snapshotReserved = false
		case "concurrent-key-insert":
			a.concurrentKeyInsert = false
		case "ttl-change-during-pass":
			a.ttlDuringPass = false
		case "schema-change-beside-activity":
			a.schemaChange = false
		case "growth-beside-readers":
			a.blockGrowth = false
		case "enum-write-beside-readers":
			a.enumBesideReaders = false
		case "enum-hash-collision":
			a.enumCollision = false
		}
	}
	if prop == "C01" {
		// C01 observes stored values only (no indexes, no stream): a store after a merge of the
		// same row and column leaves the stored value correct unless the column's buffer ends in a
		// later run of the same block (trigger len-merge-split), so the coarse situation is always on
		a.lenMergeThenPut = false
	}
	for _, t := range ownTriggers[prop] {
		if r.Chance(0.2) {
			allow(t)
		}
	}
	// exploration aid (never set by the registered checks): force-allow triggers
	if env := os.Getenv("COLSIM_ALLOW"); env != "" {
		for _, t := range strings.Split(env, ",") {
			allow(t)
		}
	}
	return a
}
