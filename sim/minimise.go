package colsim

import (
	"encoding/json"
	"time"
)

func cloneCase(cs *Case) *Case {
	b, err := json.Marshal(cs)
	if err != nil {
		panic(err)
	}
	var out Case
	if err := json.Unmarshal(b, &out); err != nil {
		panic(err)
	}
	return &out
}

// minimise shrinks a failing case by delta debugging over its structure while the same
// violation signature persists: drop threads, transactions/steps, operations, writes,
// faults, columns, layout; then simplify the schedule (fewer context switches). The
// result carries the violation and event-log hash it must reproduce on replay.
func minimise(def *PropDef, cs *Case, budget time.Duration) *Case {
	deadline := time.Now().Add(budget)
	sig := cs.Expect.Sig
	best := cloneCase(cs)
	hasKey := func(c *Case) bool {
		for _, col := range c.Schema {
			if col.Kind == KKey {
				return true
			}
		}
		return false
	}
	keyed := hasKey(cs)
	try := func(c *Case) bool {
		if time.Now().After(deadline) {
			return false
		}
		if keyed && !hasKey(c) {
			// without the key column every key operation fails with "no key column": the same
			// signature for an unrelated reason
			return false
		}
		c.Expect, c.TraceHash = nil, 0
		w := execCase(def, c)
		if w.viol != nil && w.viol.Sig == sig && !w.taintedHard() {
			c.Expect = w.viol
			c.TraceHash = w.stats.Trace
			if w.sim != nil {
				c.Sched = append([]int16(nil), w.sim.Sched...)
			}
			best = c
			return true
		}
		return false
	}
	// make sure the starting point reproduces (and pin its schedule/trace)
	if !try(cloneCase(cs)) {
		out := cloneCase(cs)
		return out
	}
	// generic list shrinker: remove chunks of decreasing size
	shrinkList := func(n func(c *Case) int, remove func(c *Case, from, to int)) {
		size := n(best)
		for chunk := size; chunk >= 1; chunk /= 2 {
			for i := 0; i+chunk <= n(best); {
				if time.Now().After(deadline) {
					return
				}
				c := cloneCase(best)
				remove(c, i, i+chunk)
				if !try(c) {
					i += chunk
				}
			}
			if chunk == 1 {
				break
			}
		}
	}
	for pass := 0; pass < 3 && time.Now().Before(deadline); pass++ {
		before, _ := json.Marshal(best)
		// threads
		shrinkList(func(c *Case) int { return len(c.Threads) }, func(c *Case, a, b int) {
			c.Threads = append(c.Threads[:a:a], c.Threads[b:]...)
			c.Sched = nil
		})
		// transactions per thread
		for ti := 0; ti < len(best.Threads); ti++ {
			ti := ti
			shrinkList(func(c *Case) int {
				if ti >= len(c.Threads) {
					return 0
				}
				return len(c.Threads[ti].Txns)
			}, func(c *Case, a, b int) {
				t := &c.Threads[ti]
				t.Txns = append(t.Txns[:a:a], t.Txns[b:]...)
			})
			for xi := 0; ti < len(best.Threads) && xi < len(best.Threads[ti].Txns); xi++ {
				xi := xi
				shrinkList(func(c *Case) int {
					if ti >= len(c.Threads) || xi >= len(c.Threads[ti].Txns) {
						return 0
					}
					return len(c.Threads[ti].Txns[xi].Ops)
				}, func(c *Case, a, b int) {
					t := &c.Threads[ti].Txns[xi]
					t.Ops = append(t.Ops[:a:a], t.Ops[b:]...)
				})
			}
		}
		// steps of a single-client history
		shrinkList(func(c *Case) int { return len(c.Steps) }, func(c *Case, a, b int) {
			c.Steps = append(c.Steps[:a:a], c.Steps[b:]...)
		})
		for si := 0; si < len(best.Steps); si++ {
			si := si
			if best.Steps[si].Txn == nil {
				continue
			}
			shrinkList(func(c *Case) int {
				if si >= len(c.Steps) || c.Steps[si].Txn == nil {
					return 0
				}
				return len(c.Steps[si].Txn.Ops)
			}, func(c *Case, a, b int) {
				t := c.Steps[si].Txn
				t.Ops = append(t.Ops[:a:a], t.Ops[b:]...)
			})
			for oi := 0; si < len(best.Steps) && best.Steps[si].Txn != nil && oi < len(best.Steps[si].Txn.Ops); oi++ {
				oi := oi
				shrinkList(func(c *Case) int {
					if si >= len(c.Steps) || c.Steps[si].Txn == nil || oi >= len(c.Steps[si].Txn.Ops) {
						return 0
					}
					return len(c.Steps[si].Txn.Ops[oi].Writes)
				}, func(c *Case, a, b int) {
					o := &c.Steps[si].Txn.Ops[oi]
					o.Writes = append(o.Writes[:a:a], o.Writes[b:]...)
				})
				shrinkList(func(c *Case) int {
					if si >= len(c.Steps) || c.Steps[si].Txn == nil || oi >= len(c.Steps[si].Txn.Ops) {
						return 0
					}
					return len(c.Steps[si].Txn.Ops[oi].Filter)
				}, func(c *Case, a, b int) {
					o := &c.Steps[si].Txn.Ops[oi]
					o.Filter = append(o.Filter[:a:a], o.Filter[b:]...)
				})
			}
		}
		// writes inside thread ops
		for ti := range best.Threads {
			for xi := range best.Threads[ti].Txns {
				for oi := range best.Threads[ti].Txns[xi].Ops {
					ti, xi, oi := ti, xi, oi
					shrinkList(func(c *Case) int {
						if ti >= len(c.Threads) || xi >= len(c.Threads[ti].Txns) || oi >= len(c.Threads[ti].Txns[xi].Ops) {
							return 0
						}
						return len(c.Threads[ti].Txns[xi].Ops[oi].Writes)
					}, func(c *Case, a, b int) {
						o := &c.Threads[ti].Txns[xi].Ops[oi]
						o.Writes = append(o.Writes[:a:a], o.Writes[b:]...)
					})
				}
			}
		}
		// faults, indexes, columns
		shrinkList(func(c *Case) int { return len(c.Faults) }, func(c *Case, a, b int) {
			c.Faults = append(c.Faults[:a:a], c.Faults[b:]...)
		})
		shrinkList(func(c *Case) int { return len(c.Indexes) }, func(c *Case, a, b int) {
			c.Indexes = append(c.Indexes[:a:a], c.Indexes[b:]...)
		})
		shrinkList(func(c *Case) int { return len(c.Schema) - 1 }, func(c *Case, a, b int) {
			c.Schema = append(c.Schema[:a+1:a+1], c.Schema[b+1:]...)
		})
		// layout and knobs
		if best.Cfg.Prefill != nil {
			c := cloneCase(best)
			c.Cfg.Prefill = nil
			if !try(c) {
				c = cloneCase(best)
				c.Cfg.Prefill.KeepFull, c.Cfg.Prefill.Holes = nil, nil
				try(c)
				shrinkList(func(c *Case) int {
					if c.Cfg.Prefill == nil {
						return 0
					}
					return len(c.Cfg.Prefill.Survivors)
				}, func(c *Case, a, b int) {
					p := c.Cfg.Prefill
					p.Survivors = append(p.Survivors[:a:a], p.Survivors[b:]...)
				})
			}
		}
		if best.Cfg.Capacity != 1024 {
			c := cloneCase(best)
			c.Cfg.Capacity = 1024
			try(c)
		}
		// clear flags that make a case harder to read
		for si := range best.Steps {
			if t := best.Steps[si].Txn; t != nil {
				for oi := range t.Ops {
					if t.Ops[oi].Yield || t.Ops[oi].Limit != 0 {
						c := cloneCase(best)
						c.Steps[si].Txn.Ops[oi].Yield, c.Steps[si].Txn.Ops[oi].Limit = false, 0
						try(c)
					}
				}
			}
		}
		// schedule: prefer "continue the current thread"
		if len(best.Sched) > 0 {
			simplifySchedule(&best, try, deadline)
		}
		after, _ := json.Marshal(best)
		if string(before) == string(after) {
			break
		}
	}
	return best
}

// simplifySchedule reduces context switches: for each switch point, try to let the
// previous thread continue instead; a shorter recorded schedule falls back to "continue
// the current thread, else lowest id" at replay.
func simplifySchedule(best **Case, try func(*Case) bool, deadline time.Time) {
	// truncate the tail first
	for cut := len((*best).Sched) / 2; cut >= 1; cut /= 2 {
		for len((*best).Sched) > cut && time.Now().Before(deadline) {
			c := cloneCase(*best)
			c.Sched = c.Sched[:len(c.Sched)-cut]
			if !try(c) {
				break
			}
		}
	}
	for i := 1; i < len((*best).Sched) && time.Now().Before(deadline); i++ {
		s := (*best).Sched
		if s[i] == s[i-1] {
			continue
		}
		c := cloneCase(*best)
		c.Sched[i] = c.Sched[i-1]
		try(c)
	}
}
