package colsim

import (
	"fmt"
	"sort"
)

// Model is the executable reference: the committed state of one collection as plain maps.
// It shares no code with /repo. Rows hold only the columns that were stored since the row
// was inserted; everything else is "absent".
type Model struct {
	Cols     []ColSpec
	Indexes  []IndexSpec
	Sorts    []SortSpec
	Rows     map[uint32]map[string]MVal
	Reserved map[uint32]int // offsets handed to in-flight inserts -> thread id
	// Touched records every (offset, column) slot that was ever stored into: a merge into an
	// absent value of an untouched slot starts from the true zero value, a merge into an
	// absent value of a touched slot meets stale content (known finding merge-absent)
	Touched  map[uint32]map[string]bool
	PeakFill int // max of live+reserved ever seen (C11 bound)
}

// SortSpec is a sorted index over a string column.
type SortSpec struct {
	Name string `json:"name"`
	Col  string `json:"col"`
}

func NewModel() *Model {
	return &Model{Rows: map[uint32]map[string]MVal{}, Reserved: map[uint32]int{}, Touched: map[uint32]map[string]bool{}}
}

func (m *Model) Col(name string) (ColSpec, bool) {
	for _, c := range m.Cols {
		if c.Name == name {
			return c, true
		}
	}
	return ColSpec{}, false
}

func (m *Model) KeyCol() (ColSpec, bool) {
	for _, c := range m.Cols {
		if c.Kind == KKey {
			return c, true
		}
	}
	return ColSpec{}, false
}

// Live returns the live offsets in ascending order.
func (m *Model) Live() []uint32 {
	out := make([]uint32, 0, len(m.Rows))
	for o := range m.Rows {
		out = append(out, o)
	}
	sort.Slice(out, func(i, j int) bool { return out[i] < out[j] })
	return out
}

// KeyOf returns the offset of the live row holding the key.
func (m *Model) KeyOf(key string) (uint32, bool) {
	kc, ok := m.KeyCol()
	if !ok {
		return 0, false
	}
	found, at := false, uint32(0)
	for o, r := range m.Rows {
		if v, ok := r[kc.Name]; ok && v.S == key {
			if !found || o < at {
				found, at = true, o
			}
		}
	}
	return at, found
}

// Get returns the committed value of a row's column.
func (m *Model) Get(off uint32, col string) (MVal, bool) {
	r, ok := m.Rows[off]
	if !ok {
		return MVal{}, false
	}
	v, ok := r[col]
	return v, ok
}

// IndexHas evaluates an index predicate for a row from the model values.
func (m *Model) IndexHas(ix IndexSpec, off uint32) bool {
	c, ok := m.Col(ix.Col)
	if !ok {
		return false
	}
	v, ok := m.Get(off, ix.Col)
	if !ok {
		return false
	}
	if c.Kind == KBool && v.U == 0 {
		return false // a stored false is the same observation as absent
	}
	return evalRule(ix.Pred, c.Kind, v)
}

// ---------------------------------------------------------------------------------
// Transactions as the model sees them

type mopKind uint8

const (
	mInsert mopKind = iota
	mPut
	mMerge
	mDelete
)

// MOp is one buffered change issued by a transaction.
type MOp struct {
	Kind mopKind
	Off  uint32
	Col  string
	Val  MVal
	Dead bool // issued by an insert whose callback then returned an error: never existed
}

func (o MOp) String() string {
	switch o.Kind {
	case mInsert:
		return fmt.Sprintf("insert@%d", o.Off)
	case mDelete:
		return fmt.Sprintf("delete@%d", o.Off)
	case mPut:
		return fmt.Sprintf("put@%d.%s", o.Off, o.Col)
	}
	return fmt.Sprintf("merge@%d.%s", o.Off, o.Col)
}

// MTxn is the harness's record of what a transaction issued.
type MTxn struct {
	Thread  int
	Ops     []MOp
	Failed  map[uint32]bool     // inserts whose callback returned an error
	applied map[uint32]bool     // blocks already applied to the model
	changes map[uint32][]Change // committed changes per block (trigger and stream oracles)
	ghost   bool                // holds a store into the unmodelled column "ghost"
	// blocks in which the transaction stored into the unmodelled column (possibly nothing else),
	// and whether that column existed when the commit of the block was released from MidCommit1
	// (it looks the column up right after)
	ghostOnly    map[uint32]bool
	ghostAtApply map[uint32]bool
}

func (t *MTxn) add(op MOp) { t.Ops = append(t.Ops, op) }

// Blocks returns the 16K blocks the transaction touches, ascending.
func (t *MTxn) Blocks() []uint32 {
	seen := map[uint32]bool{}
	var out []uint32
	for _, o := range t.Ops {
		if o.Dead {
			continue
		}
		b := o.Off >> 14
		if !seen[b] {
			seen[b] = true
			out = append(out, b)
		}
	}
	sort.Slice(out, func(i, j int) bool { return out[i] < out[j] })
	return out
}

// Change is one committed store or row deletion, as a trigger on the column must see it.
type Change struct {
	Off    uint32
	Col    string
	Delete bool
	Val    MVal
}

// ApplyBlock applies the part of a transaction that falls into one block: inserts create
// empty rows, column operations run in issue order (last write wins, merges fold in
// between), deletes remove the row with everything in it. It returns the committed
// changes per column in issue order (for the trigger oracle).
func (m *Model) ApplyBlock(t *MTxn, block uint32) []Change {
	if t.applied == nil {
		t.applied = map[uint32]bool{}
	}
	if t.applied[block] {
		return nil
	}
	t.applied[block] = true
	return m.applyBlockRaw(t, block)
}

// applyBlockRaw applies a block of a transaction regardless of whether it was applied to
// another model before (used to rebuild per-block prefixes for the snapshot oracle).
func (m *Model) applyBlockRaw(t *MTxn, block uint32) []Change {
	var changes []Change
	// Operations are interpreted in issue order per row incarnation: an insert starts a new
	// (empty) incarnation of its offset, a delete dooms the current incarnation whatever else
	// the transaction stores into it before or after (put + delete of one row: the row is
	// gone), and a doomed incarnation is removed at the end unless a later insert of the same
	// transaction re-used the offset (possible when somebody else freed it in between).
	doomed := map[uint32]bool{}
	var deletedOrder []uint32
	for _, o := range t.Ops {
		if o.Off>>14 != block || o.Dead {
			continue
		}
		r, live := m.Rows[o.Off]
		switch o.Kind {
		case mInsert:
			delete(m.Reserved, o.Off)
			m.Rows[o.Off] = map[string]MVal{}
			doomed[o.Off] = false
		case mPut:
			m.touch(o.Off, o.Col)
			if live && !doomed[o.Off] {
				r[o.Col] = o.Val
			}
			changes = append(changes, Change{Off: o.Off, Col: o.Col, Val: o.Val})
		case mMerge:
			c, _ := m.Col(o.Col)
			nv := modelMerge(c, r[o.Col], o.Val) // r may be nil: reading a nil map yields the zero value
			m.touch(o.Off, o.Col)
			if live && !doomed[o.Off] {
				r[o.Col] = nv
			}
			changes = append(changes, Change{Off: o.Off, Col: o.Col, Val: nv})
		case mDelete:
			if !doomed[o.Off] {
				deletedOrder = append(deletedOrder, o.Off)
			}
			doomed[o.Off] = true
		}
	}
	for _, off := range deletedOrder {
		if doomed[off] {
			delete(m.Rows, off)
		}
	}
	seen := map[uint32]bool{}
	for _, off := range deletedOrder {
		if !seen[off] {
			seen[off] = true
			changes = append(changes, Change{Off: off, Delete: true})
		}
	}
	m.notePeak()
	return changes
}

// Apply applies every block of the transaction in ascending block order.
func (m *Model) Apply(t *MTxn) {
	for _, b := range t.Blocks() {
		m.ApplyBlock(t, b)
	}
}

// Abort drops a transaction: only its reservations ever existed.
func (m *Model) Abort(t *MTxn) {
	for _, o := range t.Ops {
		if o.Kind == mInsert && !o.Dead {
			delete(m.Reserved, o.Off)
		}
	}
}

// killFrom marks every operation issued since index from as dead (failing insert).
func (t *MTxn) killFrom(from int) {
	for i := from; i < len(t.Ops); i++ {
		t.Ops[i].Dead = true
	}
	if t.Failed == nil {
		t.Failed = map[uint32]bool{}
	}
}

func (m *Model) touch(off uint32, col string) {
	t := m.Touched[off]
	if t == nil {
		t = map[string]bool{}
		m.Touched[off] = t
	}
	t[col] = true
}

func (m *Model) notePeak() {
	if n := len(m.Rows) + len(m.Reserved); n > m.PeakFill {
		m.PeakFill = n
	}
}

// Clone makes a deep copy of the committed state.
func (m *Model) Clone() *Model {
	n := NewModel()
	n.Cols = append(n.Cols, m.Cols...)
	n.Indexes = append(n.Indexes, m.Indexes...)
	n.Sorts = append(n.Sorts, m.Sorts...)
	n.PeakFill = m.PeakFill
	for o, r := range m.Rows {
		nr := make(map[string]MVal, len(r))
		for k, v := range r {
			nr[k] = v
		}
		n.Rows[o] = nr
	}
	for o, t := range m.Reserved {
		n.Reserved[o] = t
	}
	for o, t := range m.Touched {
		for c := range t {
			n.touch(o, c)
		}
	}
	return n
}
