//go:build instr

package colsim

import (
	"github.com/kelindar/column"
	"github.com/kelindar/column/commit"
)

// Instrumented build (/verif/tools/instr): the scratch copy of the repository calls
// SimMuHook before every sync.Mutex / sync.RWMutex acquisition, so the scheduler decides
// at every lock site of the library, not only at the hand-placed hooks.
func init() {
	column.SimMuHook = muHook
	commit.SimMuHook = muHook
	instrumented = true
}
