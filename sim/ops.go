package colsim

import "fmt"

// A Case is one fully materialised simulated run: configuration, schema, the programs of
// every simulated client, the fault plan and (after execution) the schedule that was
// taken. A replay file is a Case plus the violation it must reproduce.
type Case struct {
	Prop      string       `json:"prop"`
	World     string       `json:"world"` // which world executes the case
	Seed      uint64       `json:"seed"`  // VERIF_SEED-derived seed of this run (informational once materialised)
	Run       int          `json:"run"`
	Cfg       Config       `json:"cfg"`
	Schema    []ColSpec    `json:"schema"`
	Indexes   []IndexSpec  `json:"indexes,omitempty"` // created before the history starts
	Steps     []Step       `json:"steps,omitempty"`   // single-client history
	Threads   []ThreadProg `json:"threads,omitempty"` // concurrent clients
	Faults    []Fault      `json:"faults,omitempty"`
	Strategy  string       `json:"strategy,omitempty"`
	SchedSeed uint64       `json:"sched_seed,omitempty"`
	Sched     []int16      `json:"sched,omitempty"` // recorded thread choice per step (replay)
	Muted     []int        `json:"muted,omitempty"` // hook points that do not yield in this run (buggify)

	Expect    *Violation `json:"expect,omitempty"`
	TraceHash uint64     `json:"trace_hash,omitempty"`
}

// Config are the per-run knobs (swarm-randomised).
type Config struct {
	Capacity  int            `json:"capacity"`
	Prefill   *Prefill       `json:"prefill,omitempty"`
	KeyAlpha  []string       `json:"key_alpha,omitempty"` // key alphabet (for absent-key probes)
	Avoid     []string       `json:"avoid,omitempty"`     // known-finding triggers the generator avoided (informational)
	Replicas  bool           `json:"replicas,omitempty"`
	Snapshots bool           `json:"snapshots,omitempty"`
	Params    map[string]int `json:"params,omitempty"`
}

// Prefill describes how the world is populated before the history: whole blocks are
// filled through hand-built insert commits and then emptied except for the survivors.
type Prefill struct {
	Blocks    int      `json:"blocks"`              // number of 16K blocks filled with insert markers
	Survivors []uint32 `json:"survivors,omitempty"` // offsets left live afterwards
	KeepFull  []int    `json:"keep_full,omitempty"` // blocks left completely full except Holes
	Holes     []uint32 `json:"holes,omitempty"`     // offsets freed inside a KeepFull block
	BulkCol   string   `json:"bulk_col,omitempty"`  // string column that gets BulkLen pseudo-random bytes in every row of the KeepFull blocks (state > 1 MiB)
	BulkLen   int      `json:"bulk_len,omitempty"`
	Far       []int    `json:"far,omitempty"` // additional far-out blocks filled and emptied except for the survivors
	// EnumBulk names an enum column into which EnumBulkN distinct strings are stored before the
	// history starts (cyclically over the survivors of the first survivor's block, last value
	// wins): the column's string table then holds more entries than fit 16 bits
	EnumBulk  string `json:"enum_bulk,omitempty"`
	EnumBulkN int    `json:"enum_bulk_n,omitempty"`
}

// Step is one step of a single-client history.
type Step struct {
	Kind  string     `json:"kind"` // txn | createcol | createindex | dropindex | createsort | dropsort | createtrigger | droptrigger | restart
	Txn   *TxnProg   `json:"txn,omitempty"`
	Col   *ColSpec   `json:"col,omitempty"`
	Index *IndexSpec `json:"index,omitempty"`
	Sort  *SortSpec  `json:"sort,omitempty"`
	Name  string     `json:"name,omitempty"`
	Arg   int        `json:"arg,omitempty"`
}

// ThreadProg is the program of one simulated client thread.
type ThreadProg struct {
	Role string    `json:"role"` // writer | reader | snapshot | applier | ...
	Txns []TxnProg `json:"txns"`
	Arg  int       `json:"arg,omitempty"`
	// snapshot threads: the destination is healthy even when the case carries a write fault
	// (a second snapshotter whose calls may overlap the faulty one's)
	Healthy bool `json:"healthy,omitempty"`
}

// TxnProg is one transaction body.
type TxnProg struct {
	Ops   []Op `json:"ops"`
	Abort bool `json:"abort,omitempty"` // the callback returns an error at the end
	Panic bool `json:"panic,omitempty"` // ... or rather panics at the end (the client recovers): the transaction is neither committed nor rolled back
	// Direct: the body is one operation issued through the collection-level convenience call
	// (Collection.DeleteAt / DeleteKey), which runs a transaction of its own
	Direct bool `json:"direct,omitempty"`
}

// Op is one operation inside a transaction body.
type Op struct {
	Kind   string     `json:"kind"`             // insert | at | range | delete | deleteall | count | agg | ascend | insertkey | upsertkey | querykey | deletekey
	Fail   bool       `json:"fail,omitempty"`   // insert/upsert callback returns an error after its writes
	Target Target     `json:"target,omitempty"` // at | delete
	Key    string     `json:"key,omitempty"`
	Writes []Write    `json:"writes,omitempty"` // performed inside the row callback
	Filter []FStep    `json:"filter,omitempty"` // range | count | agg | deleteall | ascend
	Col    string     `json:"col,omitempty"`    // agg column / ascend index
	Limit  int        `json:"limit,omitempty"`  // range: rows that get the writes (0 = all)
	Yield  bool       `json:"yield,omitempty"`  // harness yield between column reads inside the callback
	Index  *IndexSpec `json:"index,omitempty"`  // mkindex: CreateIndex on the primary beside the other threads
	Sort   *SortSpec  `json:"sort,omitempty"`   // mksort: CreateSortIndex beside the other threads
	Name   string     `json:"name,omitempty"`   // mktrigger / droptrigger
	Ghost  bool       `json:"ghost,omitempty"`  // at: after the writes, also store into the unmodelled column "ghost" if it exists right now
}

// Target names a row symbolically so that cases stay meaningful when steps are removed.
type Target struct {
	Mode string `json:"mode,omitempty"` // live: K-th live row of the model (mod n) | abs: offset K | mine: K-th row inserted by this transaction
	K    int    `json:"k,omitempty"`
}

// Write is one action on the positioned row.
type Write struct {
	Col    string `json:"col,omitempty"`
	Val    Val    `json:"val,omitempty"`
	Merge  bool   `json:"merge,omitempty"`
	Via    int    `json:"via,omitempty"`    // 0 Row.SetX / 1 txn.X().Set / 2 SetAny
	Delete bool   `json:"delete,omitempty"` // delete the row instead
	SetKey bool   `json:"setkey,omitempty"` // Row.SetKey(Val)
	Draft  bool   `json:"draft,omitempty"`  // SetKey of a key other than the one the surrounding InsertKey/UpsertKey stores afterwards
	TTL    int64  `json:"ttl,omitempty"`    // Row.SetTTL(TTL ns) (C17)
	Extend int64  `json:"extend,omitempty"` // txn.TTL().Extend(Extend ns) (C17)
	Clear  bool   `json:"clear,omitempty"`  // Row.SetTTL(0) / txn.TTL().Set(0): the row no longer expires (C17)
}

// FStep is one step of a filter chain.
type FStep struct {
	Kind  string    `json:"kind"` // with | without | union | withunion | withvalue | withint | withuint | withfloat | withstring
	Names []string  `json:"names,omitempty"`
	Pred  *PredSpec `json:"pred,omitempty"`
}

// Fault is one entry of the fault plan.
type Fault struct {
	Kind string `json:"kind"`
	At   int    `json:"at,omitempty"`
	N    int    `json:"n,omitempty"`
	// stall ("slow node"): the first thread of role Role that parks at hook point At (with
	// argument Arg-1 unless Arg is 0) is not scheduled for the next N scheduler steps, unless
	// nothing else can run
	Role string `json:"role,omitempty"`
	Arg  int    `json:"arg,omitempty"`
}

func (t Target) String() string { return fmt.Sprintf("%s:%d", t.Mode, t.K) }
