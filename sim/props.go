package colsim

// PropDef binds a property to its case generator and executor.
type PropDef struct {
	ID   string
	Gen  func(seed uint64, run int, tier string) *Case
	Exec func(cs *Case) *World
	// Runs is the fixed number of runs per tier (the seed set is fixed, so what a tier
	// explores does not depend on machine load).
	Quick, Thorough int
	Level           string
	Rule            string // how cases are generated and what makes one non-trivial
	Real, Stub      []string
	Assumptions     []string
	Unit            string // "" = runs; "fault_points" = evaluations counts enumerated fault points
}

var props = map[string]*PropDef{}

func register(p *PropDef) { props[p.ID] = p }

var realComponents = []string{"column.Collection/Txn/columns (real code, /repo working tree)", "commit.Buffer/Reader/Commit/Log/Channel", "kelindar/bitmap", "kelindar/smutex + sync.RWMutex", "kelindar/iostream", "klauspost/compress/s2", "kelindar/intmap", "tidwall/btree", "zeebo/xxh3"}

func defaultAvoid() avoid {
	return avoid{}
}

func init() {
	register(&PropDef{
		ID: "C01", Quick: 6000, Thorough: 200000, Level: "exploration",
		Rule: "single-client histories of insert/put/merge/delete/reuse over a swarm-drawn schema (up to 16 column kinds, late columns), capacity and block layout; after every step the full state read through Row/Txn/Any readers is compared with the model; non-trivial = at least one committed transaction and a non-empty final state; distinct = distinct final model state hash",
		Gen: func(seed uint64, run int, tier string) *Case {
			p := seqProfile{minSteps: 4, maxSteps: 30, wTxn: 20, wCreateCol: 2,
				wInsert: 8, wAt: 8, wRange: 3, wDelete: 3, wDeleteAll: 1,
				pAbort: 0.05, pFailInsert: 0.0, pMerge: 0.35, maxCols: 12, multiBlock: 0.5}
			return genSeq("C01", seed, run, p, knownAvoid("C01", seed, run))
		},
		Exec: func(cs *Case) *World { return runSeq(cs, seqOracles{dump: true}) },
		Real: realComponents, Stub: []string{"none (single client, no files, no clock)"},
	})
}
