package colsim

// PropDef binds a property to its case generator and executor.
type PropDef struct {
	ID   string
	Gen  func(seed uint64, run int, tier string) *Case
	Exec func(cs *Case) *World
	// Runs is the fixed number of runs per tier (the seed set is fixed, so what a tier
	// explores does not depend on machine load).
	Quick, Thorough int
	Level           string
	Rule            string // how cases are generated and what makes one non-trivial
	Real, Stub      []string
	NoMinimise      bool // violations cannot be re-detected in the same process (race reports are once per process)
	Assumptions     []string
	Unit            string // "" = runs; "fault_points" = evaluations counts enumerated fault points
}

var props = map[string]*PropDef{}

func register(p *PropDef) { props[p.ID] = p }

var realComponents = []string{"column.Collection/Txn/columns (real code, /repo working tree)", "commit.Buffer/Reader/Commit/Log/Channel", "kelindar/bitmap", "kelindar/smutex + sync.RWMutex", "kelindar/iostream", "klauspost/compress/s2", "kelindar/intmap", "tidwall/btree", "zeebo/xxh3"}

func defaultAvoid() avoid {
	return avoid{}
}

const ruleSeq = "non-trivial = at least one committed transaction and a non-empty final state; distinct = distinct final model state hash"

// withStreamFault adds, in a fifth of the runs, the fault "the writer of the change stream
// returns an error from some commit on (or once)": the transaction is applied in full and
// emitted exactly once all the same (own PRNG stream).
func withStreamFault(cs *Case, seed uint64, run int) *Case {
	if fr := NewRng(seed, uint64(run), 101); fr.Chance(0.2) {
		if cs.Cfg.Params == nil {
			cs.Cfg.Params = map[string]int{}
		}
		cs.Cfg.Params["stream_fail_at"] = fr.Range(1, 8)
		cs.Cfg.Params["stream_fail_once"] = b2i(fr.Chance(0.4))
	}
	return cs
}

func init() {
	seqStub := []string{"none needed (single client; disk = in-memory SimFile/SimReader where a restart is generated)"}
	register(&PropDef{
		ID: "C01", Quick: 8000, Thorough: 400000, Level: "exploration",
		Rule: "single-client histories of insert/put/merge/delete/reuse over a swarm-drawn schema (all column kinds, merge variants, late columns), capacity and block layout (prefilled sparse/nearly-full blocks); after every step the full state read through Row/Txn/Any readers is compared with the model; every fourth run (part B) has 2-4 concurrent writers under the controlled scheduler: the value most recently committed is the last store in block-latch order, compared by readers under the read latch and by the full dump at quiescence; " + ruleSeq,
		Gen: func(seed uint64, run int, tier string) *Case {
			if run%4 == 3 {
				// part B: "most recently committed" under concurrent writers is the last store in
				// block-latch order; readers compare under the read latch, the full dump at quiescence
				return genConc("C01", seed, run, concProfile{minWriters: 2, maxWriters: 4, minReaders: 0, maxReaders: 1, maxTxns: 3, maxOps: 4,
					wUpdate: 10, wMerge: 4, wInsert: 3, wDeleteOwn: 2, wRangeRead: 1, wRangeWrite: 2, wPointRead: 2,
					pAbort: 0.1, multiBlock: 0.5, maxCols: 10, stableRows: [2]int{2, 8}}, knownAvoid("C01", seed, run))
			}
			p := seqProfile{minSteps: 4, maxSteps: 30, wTxn: 20, wCreateCol: 2, wDropCol: 1,
				wInsert: 8, wAt: 8, wRange: 3, wDelete: 3, wDeleteAll: 1,
				pAbort: 0.12, pMerge: 0.35, maxCols: 12, multiBlock: 0.5}
			cs := genSeq("C01", seed, run, p, knownAvoid("C01", seed, run))
			if run%40 == 17 {
				emptiedTopBlockTemplate(cs, seed, run)
				return cs
			}
			if pf := cs.Cfg.Prefill; run%40 == 9 && pf != nil && len(pf.Survivors) > 0 {
				// rarely reached size: an enum column whose string table holds more than 65536 entries
				for _, c := range cs.Schema {
					if c.Kind == KEnum {
						pf.EnumBulk, pf.EnumBulkN = c.Name, 66000+run%1000
						break
					}
				}
			}
			return cs
		},
		Exec: func(cs *Case) *World {
			if cs.World == "conc" {
				return runConc(cs, concOracles{})
			}
			return runSeq(cs, seqOracles{dump: true})
		},
		Real: realComponents, Stub: seqStub,
	})
	register(&PropDef{
		ID: "C02", Quick: 8000, Thorough: 400000, Level: "exploration",
		Rule: "part A (even runs, rollback erasure): single-client histories in which ~35% of the transactions end in an error (bodies mix successful and failing inserts, updates, merges, deletes, key operations over several blocks) run on collection A while twin B runs the same history without them; after every step Dump(A)==Dump(B)==model, nothing reaches the change stream for a rolled-back transaction; in a fifth of the runs the writer of the change stream returns an error from some commit on (or once) and the transaction must be applied in full all the same; part B (odd runs, isolation): 1-3 writers park inside their bodies and inside their commits while 1-2 observers read the same rows, Range and Count; every value read under a read latch must equal the committed model state; " + ruleSeq,
		Gen: func(seed uint64, run int, tier string) *Case {
			p := seqProfile{minSteps: 4, maxSteps: 24, wTxn: 20, wCreateIndex: 1,
				wInsert: 8, wAt: 8, wRange: 2, wDelete: 4, wDeleteAll: 1, wKey: 10,
				pAbort: 0.35, pFailInsert: 0.2, pMerge: 0.3, maxCols: 6, multiBlock: 0.4, pKeyCol: 0.3, indexes: true}
			streamFault := func(cs *Case) *Case { return withStreamFault(cs, seed, run) }
			if run%2 == 1 {
				return streamFault(genConc("C02", seed, run, concProfile{minWriters: 1, maxWriters: 3, minReaders: 1, maxReaders: 2, maxTxns: 3, maxOps: 4,
					wUpdate: 6, wMerge: 3, wInsert: 4, wDeleteOwn: 3, wRangeRead: 3, wRangeWrite: 1, wPointRead: 4, wKey: 8,
					pAbort: 0.3, pFailInsert: 0.15, multiBlock: 0.4, maxCols: 4, pKeyCol: 0.25, indexes: true, stableRows: [2]int{2, 6}}, knownAvoid("C02", seed, run)))
			}
			return streamFault(genSeq("C02", seed, run, p, knownAvoid("C02", seed, run)))
		},
		Exec: func(cs *Case) *World {
			if cs.World == "conc" {
				return runConc(cs, concOracles{stream: true, phantom: true})
			}
			return runSeq(cs, seqOracles{dump: true, twin: true, stream: true})
		},
		Real: realComponents, Stub: seqStub,
	})
	register(&PropDef{
		ID: "C03", Quick: 8000, Thorough: 400000, Level: "exploration",
		Rule: "single-client histories with bitmap indexes created and dropped at any point (several per column; numeric threshold, string equality/prefix, bool families), writes, merges, deletes, reuse, multi-block transactions and restarts (snapshot+restore); after every step every index is compared, through With(ix) and Row.Bool(ix), with its predicate evaluated on the model values; every third run (part B) builds indexes on a populated multi-block collection while 1-3 writers commit (yield point before each block of the back-fill) and compares every index with its predicate at quiescence; " + ruleSeq,
		Gen: func(seed uint64, run int, tier string) *Case {
			p := seqProfile{minSteps: 5, maxSteps: 28, wTxn: 20, wCreateIndex: 4, wDropIndex: 2, wRestart: 1, wCreateCol: 1,
				wInsert: 8, wAt: 10, wRange: 3, wDelete: 3, wDeleteAll: 1,
				pAbort: 0.12, pMerge: 0.4, maxCols: 6, multiBlock: 0.5, indexes: true, filters: true}
			if run%3 == 2 {
				// part B: indexes are created on a populated collection while writers commit (yield
				// point before each block of the back-fill); judged at quiescence
				return genConc("C03", seed, run, concProfile{minWriters: 1, maxWriters: 3, maxTxns: 3, maxOps: 3, indexers: 1,
					wUpdate: 10, wMerge: 4, wInsert: 2, wDeleteOwn: 2, wRangeWrite: 1,
					pAbort: 0.05, multiBlock: 0.6, maxCols: 4, stableRows: [2]int{2, 6}}, knownAvoid("C03", seed, run))
			}
			return genSeq("C03", seed, run, p, knownAvoid("C03", seed, run))
		},
		Exec: func(cs *Case) *World {
			if cs.World == "conc" {
				return runConc(cs, concOracles{})
			}
			return runSeq(cs, seqOracles{dump: true})
		},
		Real: realComponents, Stub: seqStub,
	})
	register(&PropDef{
		ID: "C04", Quick: 8000, Thorough: 300000, Level: "exploration",
		Rule: "single-client histories over sparse/dense/multi-block layouts with reused offsets and rows lacking columns; read transactions run generated chains of With/Without/Union/WithUnion/WithValue/WithInt/WithUint/WithFloat/WithString (indexes, value columns, missing names) and Count, the exact Range visiting order, and Sum/Avg/Min/Max of every numeric type are compared with set algebra evaluated on the model; every third run (part B) runs the filter chains from reader threads while 1-3 writers commit to the filtered columns and indexes over several blocks: the visited offsets must equal the set algebra evaluated block by block on the model states captured at the moments the library took each block's read latch, and Sum/Avg/Min/Max over that selection must be explained by choosing, per block, one of the committed states the block went through during the call; " + ruleSeq,
		Gen: func(seed uint64, run int, tier string) *Case {
			p := seqProfile{minSteps: 5, maxSteps: 28, wTxn: 20, wCreateIndex: 2, wDropIndex: 1,
				wInsert: 7, wAt: 6, wRange: 8, wDelete: 3, wDeleteAll: 2, wCount: 8, wAgg: 8,
				pAbort: 0.05, pMerge: 0.2, maxCols: 6, multiBlock: 0.5, indexes: true, filters: true}
			if run%3 == 2 {
				// part B: filter chains run beside committing writers (updates and merges of the
				// filtered columns over several blocks, no inserts: reserved offsets in a selection
				// are C02's finding)
				return genConc("C04", seed, run, concProfile{minWriters: 1, maxWriters: 3, maxTxns: 3, maxOps: 3, filterReaders: 2,
					wUpdate: 10, wMerge: 3, wRangeWrite: 1,
					pAbort: 0.05, multiBlock: 0.6, maxCols: 4, indexes: true, stableRows: [2]int{3, 8}}, knownAvoid("C04", seed, run))
			}
			return genSeq("C04", seed, run, p, knownAvoid("C04", seed, run))
		},
		Exec: func(cs *Case) *World {
			if cs.World == "conc" {
				return runConc(cs, concOracles{})
			}
			return runSeq(cs, seqOracles{dump: true})
		},
		Real: realComponents, Stub: seqStub,
	})
	concStub := []string{"thread scheduler (real goroutines released one at a time at the repo hooks and, in the lock-instrumented scratch copy, before every Lock/RLock of the library; enabledness from the real latch and mutex words)", "link: FIFO with seeded delay in front of the real commit.Channel", "disk: in-memory SimFile/SimReader under the real commit.Log and Snapshot/Restore"}
	register(&PropDef{
		ID: "C06", Quick: 12000, Thorough: 1000000, Level: "exploration",
		Rule: "2-5 concurrent writer threads (all column kinds, inserts with offset reuse, deletes, merges, multi-block transactions) on a primary whose every commit is tapped inside the block latch and forwarded to a real commit.Channel (consumed by an applier thread after a seeded link delay and replayed on REPLICA-C) and to a real commit.Log on a SimFile (replayed on REPLICA-L through a chunking reader); in odd runs a snapshotter thread takes snapshots meanwhile; schedule drawn per run from uniform/sticky/PCT/round-robin/phase-biased strategies over all hook points; at quiescence Dump(primary)==Dump(REPLICA-C)==Dump(REPLICA-L)==model; every 16th run is the stalled-consumer world: single-client history inside a testing/synctest bubble whose stream goes into a real commit.Channel of capacity 1-8 read by a consumer that is away 50 ms..1 h (fake clock) before every k-th receive; once it has drained the channel nothing may be missing and the replica must equal the model; another 16th is the file-log world: the stream of a single-client history goes through commit.OpenFile on a real file in the private TMPDIR, the log object is dropped and opened anew on the same file half-way (read to its end, then appended to), and a replica fed by ranging over the file through a third handle must equal the model; non-trivial = at least one commit and at least one scheduling decision with more than one enabled thread; distinct = distinct (interleaving signature, end state)",
		Gen: func(seed uint64, run int, tier string) *Case {
			if run%16 == 13 {
				return genStalled("C06", seed, run) // fault: the consumer of the change stream stalls
			}
			if run%16 == 5 {
				return genFileLog("C06", seed, run) // the stream goes through commit.OpenFile on a real file
			}
			return genConc("C06", seed, run, concProfile{minWriters: 2, maxWriters: 5, maxTxns: 3, maxOps: 4, replicas: true, snapshots: run % 2,
				wUpdate: 6, wMerge: 5, wInsert: 4, wDeleteOwn: 3, wRangeWrite: 1, wKey: 8,
				pAbort: 0.1, multiBlock: 0.5, maxCols: 8, pKeyCol: 0.2, indexes: true, stableRows: [2]int{2, 8}, linkDelay: 40}, knownAvoid("C06", seed, run))
		},
		Exec: func(cs *Case) *World {
			if cs.World == "stalled" {
				return runStalled(cs)
			}
			if cs.World == "filelog" {
				return runFileLog(cs)
			}
			return runConc(cs, concOracles{replicas: true})
		},
		Real: realComponents, Stub: concStub,
	})
	register(&PropDef{
		ID: "C09", Quick: 10000, Thorough: 600000, Level: "exploration",
		Rule: "2-5 threads merging deltas into overlapping stable rows of one or several blocks (additive merges of every numeric type incl. wrap-around, order-sensitive v*3+d merges, string concat, record merge), mixed with overwrites, readers, a snapshotter and indexes on the merged columns; the model folds the deltas in block-latch order; oracle: every value read under a read latch and the final dump equal the fold, and the absolute values carried by the emitted commits equal the model's running values; non-trivial = at least one commit and one real scheduling choice; distinct = distinct (interleaving signature, end state)",
		Gen: func(seed uint64, run int, tier string) *Case {
			return genConc("C09", seed, run, concProfile{minWriters: 2, maxWriters: 5, minReaders: 0, maxReaders: 1, maxTxns: 3, maxOps: 4, snapshots: 0,
				wUpdate: 2, wMerge: 12, wRangeRead: 1, wRangeWrite: 2, wPointRead: 1,
				pAbort: 0.1, multiBlock: 0.5, maxCols: 6, indexes: true, stableRows: [2]int{1, 4}, mergeKinds: true}, knownAvoid("C09", seed, run))
		},
		Exec: func(cs *Case) *World { return runConc(cs, concOracles{stream: true}) },
		Real: realComponents, Stub: concStub,
	})
	register(&PropDef{
		ID: "C10", Quick: 12000, Thorough: 600000, Level: "exploration",
		Rule: "writers updating 1-4 columns of the same stable rows (also multi-block) park at the three in-commit hooks while holding the write latch; readers use QueryAt (also positioned on offsets that hold no row: the one the next insert is handed, or one reserved by an insert in flight, which must show nothing and stay that way until the callback returns), Range and yield between two column reads inside one callback while holding the read latch; oracle: every value read inside a callback equals the model's committed state, which changes atomically per (transaction, block) under the write latch, so any mixture of two committed states of a row is a mismatch; non-trivial = at least one commit and one real scheduling choice; distinct = distinct (interleaving signature, end state)",
		Gen: func(seed uint64, run int, tier string) *Case {
			prof := concProfile{minWriters: 1, maxWriters: 3, minReaders: 1, maxReaders: 3, maxTxns: 3, maxOps: 3,
				wUpdate: 10, wMerge: 3, wInsert: 3, wDeleteOwn: 3, wRangeRead: 5, wRangeWrite: 2, wPointRead: 6,
				pAbort: 0.05, multiBlock: 0.4, maxCols: 5, stableRows: [2]int{1, 4}, farBlocks: 0.03}
			if run%4 == 3 {
				// churn flavour: rows come and go beside the readers (offsets are reused while the delete
				// of their previous occupant is still being committed; inserts open new blocks)
				prof.minWriters, prof.maxTxns, prof.wUpdate, prof.wInsert, prof.wDeleteOwn, prof.nearlyFull = 2, 4, 4, 10, 8, 0.5
			}
			return genConc("C10", seed, run, prof, knownAvoid("C10", seed, run))
		},
		Exec: func(cs *Case) *World { return runConc(cs, concOracles{}) },
		Real: realComponents, Stub: concStub,
	})
	register(&PropDef{
		ID: "C15", Quick: 10000, Thorough: 600000, Level: "exploration",
		Rule: "same world as C06 without replicas (in odd runs a snapshotter thread takes snapshots meanwhile, so commits also go to the snapshot recorder); oracle on the recording logger: exactly one commit per (committed transaction, block it changed), nothing for rolled-back, read-only or failing-insert-only transactions, ids distinct and non-zero, per block strictly increasing in the order the commits were applied (= reached the logger), decoded operations equal the issued ones; every 16th run is the stalled-consumer world of C06 (nothing emitted may be lost however long the consumer of a small commit.Channel is away); non-trivial = at least one commit and one real scheduling choice; distinct = distinct (interleaving signature, end state)",
		Gen: func(seed uint64, run int, tier string) *Case {
			if run%16 == 13 {
				return genStalled("C15", seed, run) // fault: the consumer of the change stream stalls
			}
			return withStreamFault(genConc("C15", seed, run, concProfile{minWriters: 2, maxWriters: 4, minReaders: 0, maxReaders: 1, maxTxns: 3, maxOps: 4, snapshots: run % 2,
				wUpdate: 8, wMerge: 4, wInsert: 4, wDeleteOwn: 3, wRangeRead: 2, wRangeWrite: 1, wPointRead: 2, wKey: 6,
				pAbort: 0.2, pFailInsert: 0.15, multiBlock: 0.5, maxCols: 5, pKeyCol: 0.15, stableRows: [2]int{1, 5}, ghost: 0.25}, knownAvoid("C15", seed, run)), seed, run)
		},
		Exec: func(cs *Case) *World {
			if cs.World == "stalled" {
				return runStalled(cs)
			}
			return runConc(cs, concOracles{stream: true})
		},
		Real: realComponents, Stub: concStub,
	})
	register(&PropDef{
		ID: "C08", Quick: 10000, Thorough: 600000, Level: "exploration",
		Rule: "a snapshotter thread takes 1-2 snapshots to a SimFile while 2-4 writers commit updates, merges, deletes and inserts (single- and multi-block); yield points in Snapshot (recorder opened, before each block, state written, recorder closed) and in the commit path; each snapshot is restored and every block must equal the model after some prefix j of the commits applied to that block in latch order with acknowledged-before-call <= j <= applied-at-return; Snapshot must not fail or panic; non-trivial = at least one commit and one real scheduling choice; distinct = distinct (interleaving signature, end state)",
		Gen: func(seed uint64, run int, tier string) *Case {
			cs := genConc("C08", seed, run, concProfile{minWriters: 2, maxWriters: 4, maxTxns: 3, maxOps: 3, snapshots: 1,
				wUpdate: 8, wMerge: 4, wInsert: 3, wDeleteOwn: 2, wRangeWrite: 1, wKey: 10,
				pAbort: 0.05, multiBlock: 0.5, maxCols: 4, pKeyCol: 0.2, stableRows: [2]int{1, 4}}, knownAvoid("C08", seed, run))
			// the strategy mix is weighted towards the phase-biased variants
			if NewRng(seed, uint64(run), 9).Chance(0.5) {
				cs.Strategy = "phase"
			}
			if run%10 == 9 {
				keyMoveTemplate(cs, seed, run)
			} else if or := NewRng(seed, uint64(run), 94); or.Chance(0.15) {
				// two snapshotters: overlapping calls are refused, the others must restore to a cut
				cs.Threads = append(cs.Threads, ThreadProg{Role: "snapshot", Arg: or.Intn(5), Txns: make([]TxnProg, 1+or.Intn(2))})
			}
			return cs
		},
		Exec: func(cs *Case) *World { return runConc(cs, concOracles{snapshots: true}) },
		Real: append(append([]string{}, realComponents...), "commit.OpenTemp recorder file in a private TMPDIR"), Stub: concStub,
	})
	register(&PropDef{
		ID: "C13", Quick: 800, Thorough: 12000, Level: "fault_enumeration", Unit: "fault_points",
		Rule: "histories: every 25th run logs one transaction that alternates between two full 16K blocks (two commits above 1 MiB each, several s2 frames, 16K shard headers per buffer) and cuts the log at every frame boundary +-2; otherwise 1-3 writers commit while a snapshotter thread takes 1-2 snapshots (so that snapshots carry a log tail recorded under concurrent commits) and every commit is also serialized to a commit.Log on a SimFile; in a quarter of the runs the destination of the commit log fails a write while the history runs (a whole call or in the middle of one; once or from then on): the file must then hold a prefix, in the order the log took them, of the commits handed to it, containing every commit acknowledged before the first failure; crash points per stream: every byte prefix while the stream is below the tier's bound (quick 2 KiB, thorough 64 KiB), otherwise every recorded write boundary +-2 plus a seeded sample; at a third of the points a read error replaces EOF, a third of the restores read through 1/5/64-byte chunks; oracle: Restore/Range return within 10 s without panic, a nil Restore leaves a state equal to the complete state part plus some prefix of the logged commits (reference states rebuilt by appending j commits to a fresh log), Range delivers a prefix of the original commits, each identical; evaluations = fault points; distinct = distinct (interleaving, end state) of the producing histories",
		Gen: func(seed uint64, run int, tier string) *Case {
			if run%25 == 24 {
				// commits above 1 MiB (several s2 frames, 16K shard headers per buffer)
				r := NewRng(seed, uint64(run), 8)
				return &Case{Prop: "C13", World: "biglog", Seed: seed, Run: run,
					Schema: []ColSpec{{Name: "expire", Kind: KInt64}, {Name: "a", Kind: KString}, {Name: "b", Kind: KInt64}},
					Cfg: Config{Capacity: 1024, Prefill: &Prefill{Blocks: 2, KeepFull: []int{0, 1}},
						Params: map[string]int{"str_len": r.Range(30, 130), "rows": []int{16384, 16384, 12000}[r.Intn(3)]}}}
			}
			prof := concProfile{minWriters: 1, maxWriters: 3, maxTxns: 3, maxOps: 3, snapshots: 1,
				wUpdate: 8, wMerge: 3, wInsert: 3, wDeleteOwn: 2, wRangeWrite: 1,
				pAbort: 0.05, multiBlock: 0.4, maxCols: 4, stableRows: [2]int{1, 4}}
			if run%5 == 2 {
				prof.nearlyFull, prof.wInsert, prof.minWriters, prof.pKeyCol, prof.stall = 0.9, 10, 2, 0, 0.7
			}
			cs := genConc("C13", seed, run, prof, knownAvoid("C13", seed, run))
			cs.Cfg.Capacity = []int{1, 64, 1024}[run%3]
			if cs.Cfg.Prefill != nil && len(cs.Cfg.Prefill.KeepFull) > 0 {
				if run%5 == 2 {
					// the snapshotter starts at once while every writer starts late, and it is stalled
					// after the state part is written with its recorder still open: whole transactions
					// of the writers, the first of which opens the new block, fall into that window
					fr := NewRng(seed, uint64(run), 93)
					cs.Faults = nil
					for i := range cs.Threads {
						switch cs.Threads[i].Role {
						case "snapshot":
							cs.Threads[i].Arg = 0
						case "writer":
							cs.Faults = append(cs.Faults, Fault{Kind: "stall", Role: "writer", At: int(ptStart), N: fr.Range(6, 14)})
						}
					}
					if fr.Chance(0.75) {
						cs.Faults = append(cs.Faults, Fault{Kind: "stall", Role: "snapshot", At: 9, Arg: 3, N: fr.Range(10, 80)}) // state written, recorder open
					} else {
						cs.Faults = append(cs.Faults, Fault{Kind: "stall", Role: "snapshot", At: 1, N: fr.Range(10, 80)}) // before the first block is read
					}
					// "new block" histories: the last block is nearly full, so inserts committed while
					// a snapshot is in progress open a block the state part does not hold and that
					// exists in the log tail only; every restore reads 16K rows, so only the write
					// boundaries and a few sampled points are cut
					cs.Cfg.Params["light"] = 1
				} else {
					// a block kept full (16K live rows) makes every one of the thousands of restores of a
					// history read 16K rows: the enumeration is about the byte stream, not about row count
					cs.Cfg.Prefill.KeepFull, cs.Cfg.Prefill.Holes = nil, nil
				}
			}
			cs.Cfg.Params["tier_thorough"] = b2i(tier == "thorough")
			if lf := NewRng(seed, uint64(run), 100); lf.Chance(0.25) {
				// fault: the destination of the primary's commit log fails a write while the history
				// runs (once, or from then on; a whole write call or in the middle of one): what the
				// log holds afterwards is itself what a failure while writing left behind
				if lf.Chance(0.5) {
					cs.Cfg.Params["log_fault_call"] = lf.Range(1, 14)
				} else {
					cs.Cfg.Params["log_fault_byte"] = lf.Range(1, 1500)
				}
				cs.Cfg.Params["log_fault_once"] = b2i(lf.Chance(0.6))
			}
			return cs
		},
		Exec: func(cs *Case) *World {
			bound, samples := 2048, 120
			if cs.Cfg.Params["tier_thorough"] == 1 {
				bound, samples = 65536, 600
			}
			if cs.World == "biglog" {
				return runBigLog(cs)
			}
			if cs.Cfg.Params["light"] == 1 {
				bound, samples = 1, 12 // (0 would switch the enumeration off)
			}
			return runConc(cs, concOracles{log: true, truncate: [2]int{bound, samples}})
		},
		Real: append(append([]string{}, realComponents...), "commit.OpenTemp recorder file in a private TMPDIR"),
		Stub: []string{"disk: SimFile (records write boundaries) and SimReader (crash truncation at any byte, read error at byte n, seeded read chunking)", "thread scheduler producing the streams"},
	})
	register(&PropDef{
		ID: "C14", Quick: 2000, Thorough: 40000, Level: "fault_enumeration", Unit: "fault_points",
		Rule: "even runs: single-client histories (every 20th with a state above 1 MiB: 16K rows x 100 incompressible bytes) ending in an empty, single-block or multi-block collection (all column kinds); against the final collection every write-call index k of the destination (fail-forever, and fail-once for odd k), every byte budget n while the stream is below the tier's bound (quick 1 KiB, thorough 8 KiB; otherwise write boundaries +-2 plus a sample) and 'temp dir unavailable' are injected; oracle: Snapshot returns non-nil iff the SimFile actually returned an error to some write (or the temp file could not be created); after each call the private TMPDIR is empty and /proc/self/fd is unchanged (GC off), and every 7th point a transaction commits, a Snapshot to a healthy SimFile succeeds and restores to the model (under a 20 s watchdog: a latch left held is a hang); odd runs (part B): a snapshotter thread writes to a SimFile with one drawn fault (write call 1..8 or byte budget 0..1500) while 1-3 writers commit, so the recorder is not empty and the log-copy phase writes too; same error-iff-fired, leak and restore oracles at quiescence, a deadlock after the failed snapshot is a violation; evaluations = fault points",
		Gen: func(seed uint64, run int, tier string) *Case {
			p := seqProfile{minSteps: 0, maxSteps: 10, wTxn: 20,
				wInsert: 10, wAt: 6, wDelete: 3,
				pAbort: 0.05, pMerge: 0.3, maxCols: 6, multiBlock: 0.4, pKeyCol: 0.15}
			if run%2 == 1 {
				// part B: a snapshotter writes to a faulty destination while writers commit, so that
				// the recorder is not empty and the log-copy phase writes too
				cs := genConc("C14", seed, run, concProfile{minWriters: 1, maxWriters: 3, maxTxns: 3, maxOps: 3, snapshots: 1,
					wUpdate: 8, wMerge: 3, wInsert: 2, wDeleteOwn: 1,
					pAbort: 0.05, multiBlock: 0.4, maxCols: 4, stableRows: [2]int{1, 4}}, knownAvoid("C14", seed, run))
				if cs.Cfg.Prefill != nil {
					cs.Cfg.Prefill.KeepFull, cs.Cfg.Prefill.Holes = nil, nil
				}
				fr := NewRng(seed, uint64(run), 91)
				if fr.Chance(0.5) {
					cs.Faults = append(cs.Faults, Fault{Kind: "snap-write-call", At: fr.Range(1, 8)})
				} else {
					cs.Faults = append(cs.Faults, Fault{Kind: "snap-write-byte", N: fr.Intn(1500)})
				}
				if sr := NewRng(seed, uint64(run), 104); sr.Chance(0.2) {
					// the destination takes part of a write and reports the short count without an
					// error (own stream): the snapshot is torn all the same and must be reported
					cs.Faults = []Fault{{Kind: "snap-write-short", N: sr.Intn(1500)}}
				}
				for i := range cs.Threads {
					if cs.Threads[i].Role == "snapshot" {
						cs.Threads[i].Txns = make([]TxnProg, 1)
					}
				}
				if fr.Chance(0.5) {
					// a second snapshotter with a healthy destination: its calls may overlap the faulty
					// one's (then they are refused) or fall into its log-copy phase
					cs.Threads = append(cs.Threads, ThreadProg{Role: "snapshot", Healthy: true, Arg: fr.Intn(5), Txns: make([]TxnProg, 1+fr.Intn(2))})
				}
				return cs
			}
			if run%20 == 0 {
				p.forceKinds = []Kind{KString}
				p.multiBlock = 1
			}
			cs := genSeq("C14", seed, run, p, knownAvoid("C14", seed, run))
			if cs.Cfg.Capacity > 20000 {
				cs.Cfg.Capacity = 1024
			}
			if cs.Cfg.Prefill != nil {
				cs.Cfg.Prefill.KeepFull, cs.Cfg.Prefill.Holes = nil, nil
			}
			if run%20 == 0 {
				// every 20th history: a state larger than one 1 MiB s2 block (16K rows x 100
				// incompressible bytes), so that a write fault surfaces in the middle of a block
				// being written instead of at the final flush
				for _, c := range cs.Schema {
					if c.Kind == KString && c.Merge == "" {
						cs.Cfg.Prefill = &Prefill{Blocks: 1, KeepFull: []int{0}, Holes: []uint32{16383}, BulkCol: c.Name, BulkLen: 100}
						break
					}
				}
			}
			cs.Cfg.Params = map[string]int{"tier_thorough": b2i(tier == "thorough")}
			return cs
		},
		Exec: func(cs *Case) *World {
			bound, samples := 1024, 100
			if cs.Cfg.Params["tier_thorough"] == 1 {
				bound, samples = 8192, 400
			}
			if cs.World == "conc" {
				return runConc(cs, concOracles{snapfault: true})
			}
			return runSeq(cs, seqOracles{dump: true, final: func(w *World) { w.snapshotFaultChecks(bound, samples) }})
		},
		Real: append(append([]string{}, realComponents...), "commit.OpenTemp recorder file in a private TMPDIR, /proc/self/fd"),
		Stub: []string{"disk: SimFile with a write fault plan (error at call k, short write after n bytes, fail-once, fail-forever)"},
	})
	register(&PropDef{
		ID: "C05", Quick: 10000, Thorough: 500000, Level: "exploration",
		Rule: "even runs (foreign producer F): a simulated peer builds commit.Buffers through the public Put* API from a seeded operation sequence (delete/insert/put/merge/bool x 2/4/8-byte and string/bytes 0..65535 x offset moves same,+1,+small,+128..,+16384..,block jump,backwards,back to block 0), every buffer is read back with Seek and per-block Range, through Buffer.WriteTo/ReadFrom, Clone, Commit.WriteTo/ReadFrom and Log.Append/Range over the simulated disk (seeded read chunking down to 1 byte), merges are replaced through the reader's Swap calls (same and different length) and re-read, and F's transactions are shipped through a commit.Log to REPLICA-F whose dump must equal the model; odd runs (real path): single-client histories in which every commit handed to the logger is decoded and compared op for op with what the transaction issued (merges as puts of the merged result) and is cloned and serialized through the simulated disk; non-trivial = at least one shipped or emitted commit; distinct = distinct final model state",
		Gen: func(seed uint64, run int, tier string) *Case {
			if run%2 == 1 {
				p := seqProfile{minSteps: 4, maxSteps: 20, wTxn: 20, wCreateIndex: 1,
					wInsert: 8, wAt: 10, wRange: 3, wDelete: 3, wDeleteAll: 1, wKey: 6,
					pAbort: 0.05, pMerge: 0.45, maxCols: 8, multiBlock: 0.6, pKeyCol: 0.2, indexes: true}
				return genSeq("C05", seed, run, p, knownAvoid("C05", seed, run))
			}
			cs := genSeq("C05", seed, run, seqProfile{maxCols: 8}, knownAvoid("C05", seed, run))
			cs.World = "codec"
			cs.Cfg.Prefill = nil
			cs.Steps = nil
			if cs.Cfg.Capacity > 20000 {
				cs.Cfg.Capacity = 1024
			}
			return cs
		},
		Exec: func(cs *Case) *World {
			if cs.World == "codec" {
				return runCodec(cs)
			}
			return runSeq(cs, seqOracles{dump: true, stream: true, roundtrip: true})
		},
		Real: realComponents, Stub: []string{"disk: SimFile/SimReader under Buffer/Commit WriteTo/ReadFrom and commit.Log", "foreign producer F (harness code using only the public commit.Buffer Put* API)"},
	})
	register(&PropDef{
		ID: "C17", Quick: 12000, Thorough: 800000, Level: "exploration",
		Rule: "runs inside a testing/synctest bubble: the collection's own vacuum goroutine runs on the fake clock and becomes one more simulated thread the first time it reaches a hook, so cleanup passes interleave at every hook with 1-3 writers that SetTTL (0.5..100 intervals, 1 h; through Row.SetTTL and through the txn.TTL() accessor), take the time-to-live away again (SetTTL/Set of zero or a negative duration), Extend, delete and update unrelated columns of the same rows (a third of the rows never get a TTL; in some insert-flavour runs the expiring rows sit behind a full 16K block of rows that all carry a far deadline), and readers; only the scheduler advances time (clock pseudo-thread: just before / exactly at / just after a tick, thirds, jumps over several ticks; cleanup interval 1 ms..10 s); oracles: every row the vacuum deletes (seen by the tap inside the block latch) must be live, hold a deadline, and that deadline must be in the past; when the vacuum is back at its ticker every row whose passed deadline was committed before that pass started must be gone; Row.TTL() equals deadline minus fake now; after the last clock fault three more intervals must remove everything overdue; the deadline column is identical on a replica fed the stream and after snapshot/restore; non-trivial = at least one cleanup pass and one commit; distinct = distinct (interleaving signature, end state)",
		Gen:  func(seed uint64, run int, tier string) *Case { return genTTL(seed, run) },
		Exec: runTTL,
		Real: append(append([]string{}, realComponents...), "the collection's vacuum goroutine and its time.Ticker (real code on the fake clock)"),
		Stub: []string{"clock: testing/synctest fake clock, advanced only by the scheduler", "thread scheduler (vacuum goroutine self-registers at its first hook; quiescence via synctest.Wait)"},
	})
	register(&PropDef{
		ID: "C18", Quick: 2200, Thorough: 60000, Level: "exploration", NoMinimise: true,
		Rule: "race mode: the simulator is built with -race and the baton is passed through raw pipe system calls from //go:norace functions, so the detector sees no happens-before edge between simulated threads except the library's own synchronisation; 3-6 threads (writers inserting across a block boundary, updating, merging, deleting; readers with point reads, filtered Range, aggregates, key lookups; snapshots; restores into other collections; index and trigger creation/drop) run under a serialised, recorded schedule; oracles: race detector reports whose two accesses lie in the library or its data-structure dependencies (signature = unordered pair of innermost such frames; a report whose two accesses lie in a column's Apply and in the growth of all columns for a new block, which that column's own lock keeps apart, is kept distinct from the known reader-side growth finding), deadlock (no thread enabled given the real latch words), hang inside package sync, panics; non-trivial = at least one scheduling decision with more than one enabled thread; distinct = distinct interleaving signature",
		Gen:  func(seed uint64, run int, tier string) *Case { return genRace(seed, run) },
		Exec: runRace,
		Real: append(append([]string{}, realComponents...), "Go race detector (ThreadSanitizer runtime)"),
		Stub: []string{"thread scheduler (raw-pipe baton, no happens-before edges of its own)"},
	})
	register(&PropDef{
		ID: "C07", Quick: 6000, Thorough: 300000, Level: "exploration",
		Rule: "single-client histories with repeated restart steps: Snapshot of a collection that may carry bitmap indexes, sorted indexes and triggers to a SimFile, Restore through a seeded chunking reader (1 byte .. whole) into a fresh collection with the same schema (indexes and sorted indexes created before or after), swap it in and continue the history against the same model; after every step the full dump (values, Count, indexes, keys) is compared and every insert offset is checked against the model's live set; " + ruleSeq,
		Gen: func(seed uint64, run int, tier string) *Case {
			p := seqProfile{minSteps: 5, maxSteps: 24, wTxn: 16, wRestart: 5, wCreateIndex: 1, wCreateSort: 1, wCreateTrig: 1, wDropTrig: 1,
				wInsert: 8, wAt: 8, wRange: 2, wDelete: 3, wDeleteAll: 1, wKey: 8, wAscend: 1,
				pAbort: 0.05, pMerge: 0.3, maxCols: 10, multiBlock: 0.6, pKeyCol: 0.3, indexes: true, sorts: true, triggers: true}
			return genSeq("C07", seed, run, p, knownAvoid("C07", seed, run))
		},
		Exec: func(cs *Case) *World { return runSeq(cs, seqOracles{dump: true}) },
		Real: realComponents, Stub: []string{"disk: in-memory SimFile (write recording) and SimReader (seeded read chunking)"},
	})
	register(&PropDef{
		ID: "C11", Quick: 10000, Thorough: 500000, Level: "exploration",
		Rule: "part A (even runs): single-client insert/delete churn producing full, sparse and fragmented fill patterns across 64-bit word and 16K block boundaries under every capacity option, with failing insert callbacks and rollbacks; every offset handed to an insert is checked at the moment it is reserved against the model's live and reserved sets and against a churn bound, every row being inserted must expose nothing, Count and the full dump are compared after every step; part B (odd runs): 2-4 concurrently inserting and deleting threads under the controlled scheduler (hook after an insert reserved its offset), same reservation oracle, Count and dump at quiescence; " + ruleSeq,
		Gen: func(seed uint64, run int, tier string) *Case {
			p := seqProfile{minSteps: 6, maxSteps: 40, wTxn: 20, wCreateIndex: 1,
				wInsert: 14, wAt: 3, wRange: 1, wDelete: 8, wDeleteAll: 2,
				pAbort: 0.15, pFailInsert: 0.15, pMerge: 0.3, maxCols: 5, multiBlock: 0.6, indexes: true}
			if run%2 == 1 {
				return genConc("C11", seed, run, concProfile{minWriters: 2, maxWriters: 4, minReaders: 0, maxReaders: 1, maxTxns: 4, maxOps: 4,
					wUpdate: 2, wMerge: 1, wInsert: 12, wDeleteOwn: 8, wRangeRead: 1, wPointRead: 1,
					pAbort: 0.15, pFailInsert: 0.15, multiBlock: 0.5, maxCols: 4, stableRows: [2]int{1, 4}, indexes: true}, knownAvoid("C11", seed, run))
			}
			return genSeq("C11", seed, run, p, knownAvoid("C11", seed, run))
		},
		Exec: func(cs *Case) *World {
			if cs.World == "conc" {
				return runConc(cs, concOracles{})
			}
			return runSeq(cs, seqOracles{dump: true})
		},
		Real: realComponents, Stub: seqStub,
	})
	register(&PropDef{
		ID: "C12", Quick: 10000, Thorough: 600000, Level: "exploration",
		Rule: "part A (even runs): single-client histories of InsertKey/UpsertKey/QueryKey/DeleteKey/SetKey over a 3-6 key alphabet (forcing repeats), several key operations per transaction (also a draft key set inside the callback of InsertKey/UpsertKey and replaced by the key of the call in the same commit), rollbacks, restarts; every return value is judged against the committed key map at issue time and after every step the key-map invariants (one live row per key, lookup reaches exactly that row, deleted/re-keyed keys do not resolve) are checked through QueryKey probes of the whole alphabet; part B (odd runs): 2-4 threads issue key operations concurrently (hook between the existence check and the insert), return values judged when no commit is in flight, one-live-row-per-key checked the moment each key write commits; " + ruleSeq,
		Gen: func(seed uint64, run int, tier string) *Case {
			p := seqProfile{minSteps: 6, maxSteps: 36, wTxn: 20, wRestart: 1, wCreateIndex: 1,
				wAt: 4, wRange: 3, wCount: 1, wDelete: 3, wKey: 20,
				pAbort: 0.15, pFailInsert: 0.1, pMerge: 0.3, maxCols: 4, multiBlock: 0.4, pKeyCol: 1, indexes: true, filters: true}
			if run%2 == 1 {
				return genConc("C12", seed, run, concProfile{minWriters: 2, maxWriters: 4, minReaders: 0, maxReaders: 1, maxTxns: 4, maxOps: 3,
					wUpdate: 1, wRangeRead: 1, wPointRead: 1, wKey: 14,
					pAbort: 0.1, pFailInsert: 0.1, maxCols: 3, pKeyCol: 1, sharedKeys: 1, stableRows: [2]int{2, 4}}, knownAvoid("C12", seed, run))
			}
			return genSeq("C12", seed, run, p, knownAvoid("C12", seed, run))
		},
		Exec: func(cs *Case) *World {
			if cs.World == "conc" {
				return runConc(cs, concOracles{})
			}
			return runSeq(cs, seqOracles{dump: true})
		},
		Real: realComponents, Stub: seqStub,
	})
	register(&PropDef{
		ID: "C16", Quick: 8000, Thorough: 400000, Level: "exploration",
		Rule: "single-client histories over a 5-letter string alphabet (forces equal keys) across several blocks with sorted indexes created before or after the data, overwrites to an existing value, merges, delete-then-reinsert, combined with generated filter chains; every Ascend sequence must contain exactly the selected rows holding a value, each once, in non-decreasing order of the model's current values; every third run (part B) creates sorted indexes on a populated multi-block collection while 1-3 writers commit (yield point before each block of the back-fill) and checks a full Ascend at quiescence; " + ruleSeq,
		Gen: func(seed uint64, run int, tier string) *Case {
			p := seqProfile{minSteps: 5, maxSteps: 28, wTxn: 20, wCreateSort: 4, wDropSort: 1, wCreateIndex: 1, wRestart: 1,
				wInsert: 8, wAt: 8, wRange: 2, wDelete: 4, wDeleteAll: 1, wAscend: 10,
				pAbort: 0.05, pMerge: 0.3, maxCols: 4, multiBlock: 0.4, indexes: true, filters: true, smallStrings: true, sorts: true,
				forceKinds: []Kind{KString, KEnum}}
			if run%3 == 2 {
				// part B: sorted indexes are created on a populated collection while writers commit
				return genConc("C16", seed, run, concProfile{minWriters: 1, maxWriters: 3, maxTxns: 3, maxOps: 3, indexers: 1, schemaSorts: true,
					wUpdate: 10, wMerge: 2, wInsert: 3, wDeleteOwn: 2, wRangeWrite: 1,
					pAbort: 0.05, multiBlock: 0.6, maxCols: 3, stableRows: [2]int{2, 6}, forceKinds: []Kind{KString, KEnum}}, knownAvoid("C16", seed, run))
			}
			return genSeq("C16", seed, run, p, knownAvoid("C16", seed, run))
		},
		Exec: func(cs *Case) *World {
			if cs.World == "conc" {
				return runConc(cs, concOracles{})
			}
			return runSeq(cs, seqOracles{dump: true})
		},
		Real: realComponents, Stub: seqStub,
	})
	register(&PropDef{
		ID: "C19", Quick: 10000, Thorough: 400000, Level: "exploration",
		Rule: "single-client histories of puts, merges (incl. length-changing string/record merges), row deletes and rollbacks over several blocks with triggers created and dropped mid-history; after every transaction the callback log is compared, per trigger and row, with the model's committed stores (issue order, value after merge) and deletions, and so is the callback log of a replica that is fed the emitted commits (cloned) and carries the same triggers; odd runs (part B) create and drop triggers (several on one column) from a schema thread while 1-3 writers commit: a block commit lying inside a trigger's life (latch taken after the creation, released before the drop) must be reported to it exactly, one that ended before the creation or started after the drop not at all, overlapping ones are not judged; " + ruleSeq,
		Gen: func(seed uint64, run int, tier string) *Case {
			p := seqProfile{minSteps: 5, maxSteps: 28, wTxn: 20, wCreateTrig: 5, wDropTrig: 2,
				wInsert: 8, wAt: 10, wRange: 3, wDelete: 4, wDeleteAll: 1,
				pAbort: 0.2, pMerge: 0.4, maxCols: 5, multiBlock: 0.5, triggers: true}
			if run%2 == 1 {
				// part B: triggers are created and dropped (several on one column) while writers commit
				return genConc("C19", seed, run, concProfile{minWriters: 1, maxWriters: 3, maxTxns: 3, maxOps: 3, indexers: 1, schemaTriggers: true,
					wUpdate: 10, wMerge: 4, wInsert: 2, wDeleteOwn: 2, wRangeWrite: 1,
					pAbort: 0.1, multiBlock: 0.6, maxCols: 3, stableRows: [2]int{2, 6}}, knownAvoid("C19", seed, run))
			}
			return genSeq("C19", seed, run, p, knownAvoid("C19", seed, run))
		},
		Exec: func(cs *Case) *World {
			if cs.World == "conc" {
				return runConc(cs, concOracles{})
			}
			return runSeq(cs, seqOracles{dump: true, triggers: true, trigRep: true})
		},
		Real: realComponents, Stub: seqStub,
	})
}

// keyMoveTemplate rewrites a C08 case into the "a key moves to another block while the
// snapshot is between the two blocks" history: block 0 is full of keyless rows except for one
// hole; set-up puts key k0 into the hole and k1 into block 1; the snapshotter starts at once
// and is stalled in front of block 1; meanwhile one writer deletes k0 and later inserts it
// again while another writer inserts a key of its own (which, scheduled in between, takes
// the hole, so that k0 comes back in block 1). The log tail then holds the delete of a row
// whose key already resolves to a row of a block captured later.
func keyMoveTemplate(cs *Case, seed uint64, run int) {
	r := NewRng(seed, uint64(run), 88)
	kc := -1
	for i, c := range cs.Schema {
		if c.Kind == KKey {
			kc = i
		}
	}
	if kc < 0 {
		cs.Schema = append(cs.Schema, ColSpec{Name: "pk", Kind: KKey})
	}
	cs.Indexes = nil
	cs.Cfg.KeyAlpha = []string{"k0", "k1", "k2"}
	cs.Cfg.Prefill = &Prefill{Blocks: 1, KeepFull: []int{0}, Holes: []uint32{uint32(r.Intn(1 << 14))}}
	cs.Cfg.Params["shared_keys"] = 0
	var val []Write
	for _, c := range cs.Schema {
		if c.Kind.Numeric() && c.Name != "expire" {
			val = append(val, Write{Col: c.Name, Val: Val{U: uint64(r.Intn(100))}})
			break
		}
	}
	cs.Steps = []Step{{Kind: "txn", Txn: &TxnProg{Ops: []Op{{Kind: "insertkey", Key: "k0", Writes: val}, {Kind: "insertkey", Key: "k1", Writes: val}}}}}
	cs.Threads = []ThreadProg{
		{Role: "writer", Txns: []TxnProg{{Ops: []Op{{Kind: "deletekey", Key: "k0"}}}, {Ops: []Op{{Kind: "insertkey", Key: "k0", Writes: val}}}}},
		{Role: "writer", Txns: []TxnProg{{Ops: []Op{{Kind: "insertkey", Key: "k2", Writes: val}}}}},
		{Role: "snapshot", Txns: make([]TxnProg, 1)},
	}
	cs.Faults = []Fault{
		{Kind: "stall", Role: "writer", At: int(ptStart), N: r.Range(5, 9)},
		{Kind: "stall", Role: "writer", At: int(ptStart), N: r.Range(5, 12)},
		{Kind: "stall", Role: "snapshot", At: 1, Arg: 2, N: r.Range(60, 140)}, // in front of block 1
	}
	cs.Muted = nil
}

func b2i(b bool) int {
	if b {
		return 1
	}
	return 0
}
