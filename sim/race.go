package colsim

import (
	"bytes"
	"fmt"
	"io"
	"os"
	"runtime"
	"sort"
	"strings"
	"sync/atomic"
	"syscall"
	"unsafe"

	"github.com/kelindar/column"
	"github.com/kelindar/column/commit"
	"github.com/kelindar/smutex"
)

// Race mode (C18). The controlled scheduler must not create happens-before edges between
// simulated threads, otherwise the race detector would consider every pair of accesses
// ordered. The baton is therefore passed through raw pipe system calls issued from
// //go:norace functions, and every piece of harness state that threads and scheduler share
// is touched only from such functions. Under a fully serialised, replayable schedule the
// race detector then reports exactly the library's own unsynchronised conflicting accesses.

type rThread struct {
	id    int
	name  string
	rfd   int // the thread blocks reading this end
	wfd   int // the scheduler releases the thread by writing here
	kind  uint8
	latch *smutex.SMutex128
	arg   uint32
	mu    unsafe.Pointer // ptMuLock: the mutex about to be acquired
	muRW  bool
	muW   bool
	// announced: the thread waits for an exclusive acquisition and has, in this schedule,
	// already made its Lock() call: like a pending writer of a sync.RWMutex it holds new
	// readers of that lock back until it got the lock (writer preference)
	announced bool
	done      bool
	panicV    any
	body      func()
}

type rSim struct {
	threads   []*rThread
	cur       *rThread
	sr, sw    int // scheduler pipe: threads write sw when they park or finish
	rng       *Rng
	strategy  string
	replay    []int16
	sched     []int16
	steps     int
	choices   int
	trace     hash64
	ilv       hash64
	last      *rThread
	hits      [ptMax]int
	hung      bool
	hungAlone bool // ... and no other thread could have run
	dead      bool
	desc      string
	announces int
	muMuted   bool // mutex points do not yield in this run unless the mutex is held (buggify)
}

var rs *rSim

//go:norace
func rawWrite(fd int) {
	var b [1]byte
	for {
		_, _, e := syscall.Syscall(syscall.SYS_WRITE, uintptr(fd), uintptr(unsafe.Pointer(&b[0])), 1)
		if e != syscall.EINTR {
			return
		}
	}
}

//go:norace
func rawRead(fd int) {
	var b [1]byte
	for {
		n, _, e := syscall.Syscall(syscall.SYS_READ, uintptr(fd), uintptr(unsafe.Pointer(&b[0])), 1)
		if e == syscall.EINTR || (e == 0 && n == 0) {
			if e == 0 && n == 0 {
				return
			}
			continue
		}
		return
	}
}

type pollFd struct {
	fd      int32
	events  int16
	revents int16
}

// rawPoll waits until fd is readable or the timeout (ms) expires.
//
//go:norace
func rawPoll(fd int, ms int) bool {
	p := pollFd{fd: int32(fd), events: 1}
	for {
		n, _, e := syscall.Syscall(syscall.SYS_POLL, uintptr(unsafe.Pointer(&p)), 1, uintptr(ms))
		if e == syscall.EINTR {
			continue
		}
		return n > 0
	}
}

// raceHook is the repo hook in race mode.
//
//go:norace
func raceHook(c *column.Collection, latch *smutex.SMutex128, p column.SimPoint, arg uint32) {
	s := rs
	if s == nil || s.cur == nil {
		return
	}
	t := s.cur
	t.kind, t.latch, t.arg = uint8(p), latch, arg
	s.hits[p]++
	rawWrite(s.sw)
	rawRead(t.rfd)
}

// raceMuHook is the mutex hook of the instrumented build in race mode.
//
//go:norace
func raceMuHook(mu any, write bool) {
	s := rs
	if s == nil || s.cur == nil {
		return
	}
	p, rw, ok := muPtr(mu)
	if !ok {
		return
	}
	t := s.cur
	t.kind, t.latch, t.arg = ptMuLock, nil, 0
	t.mu, t.muRW, t.muW = p, rw, write
	s.hits[ptMuLock]++
	if s.muMuted && muFree(p, rw, write) {
		return
	}
	rawWrite(s.sw)
	rawRead(t.rfd)
}

// rYield is a harness yield point in race mode.
//
//go:norace
func rYield(kind uint8) {
	s := rs
	if s == nil || s.cur == nil {
		return
	}
	t := s.cur
	t.kind, t.latch, t.arg = kind, nil, 0
	s.hits[kind]++
	rawWrite(s.sw)
	rawRead(t.rfd)
}

//go:norace
func rFinish(t *rThread, p any) {
	t.panicV = p
	t.done = true
	rawWrite(rs.sw)
}

//go:norace
func rStart(t *rThread) { rawRead(t.rfd) }

func (s *rSim) spawn(name string, body func()) {
	var fds [2]int
	if err := syscall.Pipe(fds[:]); err != nil {
		panic(err)
	}
	t := &rThread{id: len(s.threads), name: name, rfd: fds[0], wfd: fds[1], kind: ptStart, body: body}
	s.threads = append(s.threads, t)
	go func() {
		rStart(t)
		defer func() { rFinish(t, recover()) }()
		t.body()
	}()
}

// lockOf names the lock a parked thread is about to acquire (nil if it is not parked in
// front of one) and whether the acquisition is exclusive.
//
//go:norace
func (t *rThread) lockOf() (key unsafe.Pointer, write bool) {
	switch t.kind {
	case uint8(column.SimBeforeRLock):
		return unsafe.Add(unsafe.Pointer(t.latch), uintptr(t.arg%128)*64), false
	case uint8(column.SimBeforeLock):
		return unsafe.Add(unsafe.Pointer(t.latch), uintptr(t.arg%128)*64), true
	case ptMuLock:
		if t.muRW {
			return t.mu, t.muW
		}
	}
	return nil, false
}

//go:norace
func (s *rSim) enabled(t *rThread) bool {
	ok := true
	switch t.kind {
	case uint8(column.SimBeforeRLock):
		_, w := latchState(t.latch, t.arg)
		ok = !w
	case uint8(column.SimBeforeLock):
		r, w := latchState(t.latch, t.arg)
		ok = !w && r == 0
	case ptMuLock:
		ok = muFree(t.mu, t.muRW, t.muW)
	}
	if key, write := t.lockOf(); ok && key != nil && !write {
		// a shared acquisition waits behind a writer that has announced itself on the same lock
		for _, o := range s.threads {
			if o != t && !o.done && o.announced {
				if ok2, _ := o.lockOf(); ok2 == key {
					return false
				}
			}
		}
	}
	return ok
}

// announceable reports whether the thread waits for an exclusive acquisition of a
// reader/writer lock that only readers hold right now and has not announced itself yet.
//
//go:norace
func (s *rSim) announceable(t *rThread) bool {
	key, write := t.lockOf()
	if key == nil || !write || t.announced {
		return false
	}
	readers, writer := rwState(key)
	return readers > 0 && !writer
}

// run schedules the threads until all have finished; it returns false on deadlock or hang.
//
//go:norace
func (s *rSim) run() {
	var en []*rThread
	for {
		en = en[:0]
		unfinished := 0
		for _, t := range s.threads {
			if t.done {
				continue
			}
			unfinished++
			if s.enabled(t) {
				en = append(en, t)
			}
		}
		if unfinished == 0 {
			return
		}
		if len(en) == 0 {
			s.dead = true
			s.desc = s.describe()
			return
		}
		// writer preference of the reader/writer locks: a thread that waits for an exclusive
		// acquisition while readers hold the lock may, as a scheduling step of its own, announce
		// itself (in reality: its Lock() call has started); from then on new readers of that lock
		// wait behind it. Recorded in the schedule as a negative entry.
		if a := s.pickAnnounce(); a != nil {
			a.announced = true
			s.announces++
			s.sched = append(s.sched, int16(-1-a.id))
			s.steps++
			s.trace = s.trace.add(uint64(a.id)<<40 | uint64(0xff)<<32)
			continue
		}
		t := s.pick(en)
		t.announced = false
		s.sched = append(s.sched, int16(t.id))
		s.steps++
		s.trace = s.trace.add(uint64(t.id)<<40 | uint64(t.kind)<<32 | uint64(t.arg))
		if len(en) > 1 {
			s.choices++
			s.ilv = s.ilv.add(uint64(t.id)<<40 | uint64(t.kind)<<32 | uint64(t.arg))
		}
		s.last = t
		s.cur = t
		rawWrite(t.wfd)
		if !rawPoll(s.sr, 20000) {
			s.hung = true
			// a released thread that blocks although its acquisition was seen as free waits for a
			// lock that is not a scheduling point (a dependency's internal lock) held by a parked
			// thread: if some other thread could run, the wait is an artefact of running one
			// thread at a time, not a deadlock
			s.hungAlone = true
			for _, o := range s.threads {
				if o != t && !o.done && s.enabled(o) {
					s.hungAlone = false
				}
			}
			s.desc = fmt.Sprintf("thread %s released at %s/%d did not yield within 20s", t.name, pointName[t.kind], t.arg)
			return
		}
		rawRead(s.sr)
		s.cur = nil
		if t.panicV != nil {
			return
		}
		if s.steps > 6000 {
			// over budget: finish without further choices
			s.strategy = "drain"
		}
	}
}

// pickAnnounce decides whether this step is an announcement, and whose.
//
//go:norace
func (s *rSim) pickAnnounce() *rThread {
	step := s.steps
	if step < len(s.replay) {
		if e := int(s.replay[step]); e < 0 {
			for _, t := range s.threads {
				if t.id == -1-e && !t.done && s.announceable(t) {
					return t
				}
			}
		}
		return nil
	}
	if s.replay != nil || s.strategy == "drain" {
		return nil
	}
	var an []*rThread
	for _, t := range s.threads {
		if !t.done && s.announceable(t) {
			an = append(an, t)
		}
	}
	if len(an) == 0 || !s.rng.Chance(0.5) {
		return nil
	}
	return an[s.rng.Intn(len(an))]
}

//go:norace
func (s *rSim) describe() string {
	var b strings.Builder
	for _, t := range s.threads {
		if !t.done {
			fmt.Fprintf(&b, "[%s at %s/%d announced=%v] ", t.name, pointName[t.kind], t.arg, t.announced)
		}
	}
	return b.String()
}

//go:norace
func (s *rSim) pick(en []*rThread) *rThread {
	step := s.steps
	if step < len(s.replay) {
		for _, t := range en {
			if int(s.replay[step]) == t.id {
				return t
			}
		}
		return en[0]
	}
	if s.replay != nil || s.strategy == "drain" {
		for _, t := range en {
			if t == s.last {
				return t
			}
		}
		return en[0]
	}
	if len(en) == 1 {
		return en[0]
	}
	switch s.strategy {
	case "sticky", "pct1", "pct2", "pct3", "phase":
		for _, t := range en {
			if t == s.last && s.rng.Chance(0.75) {
				return t
			}
		}
	case "rr":
		for _, t := range en {
			if t == s.last && s.rng.Chance(0.5) {
				return t
			}
		}
	}
	return en[s.rng.Intn(len(en))]
}

func (s *rSim) closeAll() {
	for _, t := range s.threads {
		syscall.Close(t.rfd)
		syscall.Close(t.wfd)
	}
	syscall.Close(s.sr)
	syscall.Close(s.sw)
}

// ---------------------------------------------------------------------------------
// race reports

// raceLog locates the race detector's log file of this process (GORACE log_path).
func raceLogPath() string {
	for _, f := range strings.Fields(os.Getenv("GORACE")) {
		if strings.HasPrefix(f, "log_path=") {
			return fmt.Sprintf("%s.%d", strings.TrimPrefix(f, "log_path="), os.Getpid())
		}
	}
	return ""
}

type raceReport struct {
	Sig  string
	Text string
}

// parseRaceReports extracts, from race detector output, one signature per report: the
// unordered pair of the innermost frames of the two accesses that lie in the library or
// its data-structure dependencies.
func parseRaceReports(text string) []raceReport {
	var out []raceReport
	for _, rep := range strings.Split(text, "==================") {
		if !strings.Contains(rep, "DATA RACE") {
			continue
		}
		var pair []string
		var underApply, underGrowth bool
		blocks := strings.Split(rep, "\n\n")
		for _, b := range blocks {
			lines := strings.Split(strings.TrimSpace(b), "\n")
			if len(lines) == 0 {
				continue
			}
			head := lines[0]
			if strings.HasPrefix(head, "WARNING: DATA RACE") && len(lines) > 1 {
				head = lines[1]
				lines = lines[1:]
			}
			if !(strings.Contains(head, " by goroutine ") || strings.Contains(head, " by main goroutine")) || strings.HasPrefix(strings.TrimSpace(head), "Goroutine") {
				continue
			}
			fn := ""
			if len(pair) < 2 {
				// which of the library's locked regions the access lies in: a commit growing every
				// column for a new block (collection lock + each column's lock, exclusively) or a
				// column's Apply (that column's lock, shared)
				switch body := strings.Join(lines[1:], "\n"); {
				case strings.Contains(body, "column.(*Txn).commitCapacity"):
					underGrowth = true
				case strings.Contains(body, "column.(*column).Apply"):
					underApply = true
				}
			}
			for _, l := range lines[1:] {
				l = strings.TrimSpace(l)
				if strings.HasPrefix(l, "/") || l == "" {
					continue
				}
				if strings.Contains(l, "github.com/kelindar/") || strings.Contains(l, "github.com/tidwall/") || strings.Contains(l, "github.com/klauspost/") {
					if strings.Contains(l, "colsim.") {
						continue
					}
					fn = shortFunc(strings.TrimSuffix(l, "()"))
					break
				}
			}
			if fn == "" {
				fn = "?"
			}
			pair = append(pair, fn)
		}
		if len(pair) < 2 {
			pair = append(pair, "?", "?")
		}
		pair = pair[:2]
		sort.Strings(pair)
		prefix := "race/"
		if underApply && underGrowth {
			// both accesses lie in regions the column's own lock keeps apart: not the growth
			// finding, which is about readers that hold no column lock
			prefix = "race-under-column-lock/"
		}
		out = append(out, raceReport{Sig: prefix + pair[0] + "|" + pair[1], Text: strings.TrimSpace(rep)})
	}
	return out
}

// ---------------------------------------------------------------------------------
// race world

// runRace executes a C18 case: threads run transactions, point reads, filtered iteration,
// inserts growing across blocks, deletes, snapshots, restores into other collections and
// index/trigger creation on one collection under a serialised schedule; the oracles are
// the race detector, deadlock, hang and panics.
func runRace(cs *Case) (w *World) {
	w = newWorld(cs)
	prevHook := column.SimHook
	defer func() { column.SimHook = prevHook }()
	column.SimHook = raceHook
	logPath := raceLogPath()
	var before int64
	if fi, err := os.Stat(logPath); err == nil {
		before = fi.Size()
	}
	commit.SimSetID(1000)
	var stream commit.Logger
	if NewRng(cs.Seed, uint64(cs.Run), 103).Chance(0.5) {
		// half of the runs have a change stream: a real commit.Log over a sink that is only
		// touched under the log's own lock, so that commits are encoded by the committing threads
		// (beside a snapshot's recorder, which encodes the same commits into its own log)
		stream = commit.Open(&raceSink{})
	}
	c := w.newCollection(stream)
	w.primary = c
	defer w.close()
	w.prefill(c, cs.Cfg.Prefill)
	// set-up on the scheduler goroutine (rs == nil: hooks pass through)
	var stable []uint32
	cols := append([]ColSpec{}, cs.Schema...)
	keyed := false
	for _, col := range cols {
		keyed = keyed || col.Kind == KKey
	}
	for i, st := range cs.Steps {
		if st.Kind != "txn" {
			continue
		}
		for _, op := range st.Txn.Ops {
			op := op
			c.Query(func(txn *column.Txn) error {
				fn := func(r column.Row) error {
					stable = append(stable, r.Index())
					for _, wr := range op.Writes {
						if col, ok := colOf(cols, wr.Col); ok {
							raceIssue(txn, r, col, wr, true)
						}
					}
					return nil
				}
				switch op.Kind {
				case "insertkey":
					return txn.InsertKey(op.Key, fn)
				case "insert":
					_, err := txn.Insert(fn)
					return err
				default:
					return txn.QueryAt(uint32(op.Target.K), fn)
				}
			})
		}
		_ = i
	}
	for _, st := range cs.Steps {
		if st.Kind == "createsort" {
			if err := c.CreateSortIndex(st.Sort.Name, st.Sort.Col); err != nil {
				panic(err)
			}
		}
	}
	// a snapshot other threads restore into their own collections
	var presnap bytes.Buffer
	if err := c.Snapshot(&presnap); err != nil {
		w.fail(violation("snapshot-error", "%v", err))
		return w
	}
	s := &rSim{rng: NewRng(cs.SchedSeed, 3), strategy: cs.Strategy, replay: cs.Sched, trace: hashInit, ilv: hashInit}
	if cs.Sched == nil {
		s.replay = nil
	}
	for _, k := range cs.Muted {
		s.muMuted = s.muMuted || k == int(ptMuLock)
	}
	var fds [2]int
	if err := syscall.Pipe(fds[:]); err != nil {
		panic(err)
	}
	s.sr, s.sw = fds[0], fds[1]
	for ti := range cs.Threads {
		tp := &cs.Threads[ti]
		ti := ti
		s.spawn(fmt.Sprintf("%s%d", tp.Role, ti), func() { raceBody(c, cols, stable, tp, ti, presnap.Bytes(), keyed) })
	}
	for _, tp := range cs.Threads {
		if tp.Role == "indexer" {
			w.noteTrigger("schema-change-beside-activity")
		}
	}
	for _, col := range cs.Schema {
		if col.Kind == KEnum {
			w.noteTrigger("enum-write-beside-readers")
		}
	}
	if cs.Cfg.Prefill != nil && len(cs.Cfg.Prefill.KeepFull) > 0 || cs.Cfg.Capacity < 70000 {
		w.noteTrigger("growth-beside-readers")
	}
	rs = s
	s.run()
	rs = nil
	w.stats.Steps, w.stats.Choices, w.stats.Ilv = s.steps, s.choices, uint64(s.ilv)
	w.stats.Trace = uint64(s.trace)
	w.stats.Hooks = map[string]int{}
	for k, n := range s.hits {
		if n > 0 {
			w.stats.Hooks[pointName[uint8(k)]] += n
		}
	}
	for i := 0; i < s.announces; i++ {
		w.stats.fault("writer-announced-before-readers-drained")
	}
	w.raceSched = s.sched
	for _, t := range s.threads {
		if t.panicV != nil {
			w.taint = true
			w.fail(violation("panic/"+shortPanic(t.panicV), "panic in thread %s: %v", t.name, t.panicV))
			return w
		}
	}
	switch {
	case s.dead:
		w.taint = true
		w.fail(violation("deadlock", "no simulated thread can run: %s", s.desc))
		return w
	case s.hung:
		w.taint = true
		buf := make([]byte, 1<<20)
		dump := string(buf[:runtime.Stack(buf, true)])
		inLock := strings.Contains(dump, "sync.(*RWMutex).") || strings.Contains(dump, "sync.(*Mutex).")
		if inLock && s.hungAlone {
			w.fail(violation("hang-in-lock", "%s (blocked inside package sync)", s.desc))
		} else {
			w.incon = "hang"
		}
		return w
	}
	s.closeAll()
	// collect what the race detector reported during this run
	if logPath != "" {
		if b, err := os.ReadFile(logPath); err == nil && int64(len(b)) > before {
			reps := parseRaceReports(string(b[before:]))
			for i, r := range reps {
				if i == 0 {
					w.fail(violation(r.Sig, "%s", r.Text))
				} else {
					w.extra = append(w.extra, violation(r.Sig, "%s", r.Text))
				}
			}
		}
	}
	w.stats.EndState = uint64(hashInit.add(uint64(c.Count())))
	w.stats.Nontrivial = s.choices > 0
	return w
}

func shortPanic(p any) string {
	s := fmt.Sprint(p)
	if len(s) > 40 {
		s = s[:40]
	}
	return sanitize(s)
}

func colOf(cols []ColSpec, name string) (ColSpec, bool) {
	for _, c := range cols {
		if c.Name == name {
			return c, true
		}
	}
	return ColSpec{}, false
}

// raceSink is the destination of the race world's change stream: it counts bytes.
type raceSink struct{ n int }

func (s *raceSink) Write(p []byte) (int, error) { s.n += len(p); return len(p), nil }
func (s *raceSink) Read(p []byte) (int, error)  { return 0, io.EOF }

// raceIssue writes one value (no model, no shared harness state).
func raceIssue(txn *column.Txn, r column.Row, col ColSpec, wr Write, hasRow bool) {
	v := wr.Val.M(col.Kind)
	if nk, ok := nums[col.Kind]; ok {
		v.U = nk.canon(v.U)
	}
	x := &txnCtx{txn: txn}
	via := wr.Via
	if !hasRow {
		via = 1
	}
	if via == 2 && (wr.Merge || !hasRow) {
		via = 0
	}
	x.issue(r, col, wr.Merge && col.Kind.Mergeable(), v, via)
}

// raceBody is the program of one simulated thread in race mode.
func raceBody(c *column.Collection, cols []ColSpec, stable []uint32, tp *ThreadProg, ti int, presnap []byte, keyed bool) {
	var own []uint32
	for xi := range tp.Txns {
		prog := &tp.Txns[xi]
		for oi := range prog.Ops {
			op := &prog.Ops[oi]
			switch op.Kind {
			case "snapshot":
				var buf bytes.Buffer
				c.Snapshot(&buf)
			case "restore":
				other := column.NewCollection(column.Options{Capacity: 64, Vacuum: vacuumNever})
				for _, col := range cols {
					if col.Name != "expire" {
						other.CreateColumn(col.Name, makeColumn(col))
					}
				}
				other.Restore(bytes.NewReader(presnap))
				other.Close()
			case "mkindex":
				name := fmt.Sprintf("rix%d_%d_%d", ti, xi, oi)
				if op.Name != "" {
					// an index whose target is itself an index: accepted by the library (it selects
					// nothing); creating and dropping it must leave nothing locked
					c.CreateIndex(name, op.Name, func(r column.Reader) bool { return true })
					rYield(ptBetween)
					c.DropIndex(name)
					break
				}
				if col, ok := colOf(cols, op.Col); ok {
					c.CreateIndex(name, col.Name, PredSpec{Fam: predFamFor(col.Kind), I: 10, F: 10, S: "c"}.rule())
					rYield(ptBetween)
					c.Query(func(txn *column.Txn) error { txn.With(name).Count(); return nil })
					rYield(ptBetween)
					c.DropIndex(name)
				}
			case "mktrigger":
				name := fmt.Sprintf("rtg%d_%d_%d", ti, xi, oi)
				// (commits to different blocks call a trigger concurrently: the callback is the
				// client's code and must be safe for that, so it counts atomically)
				var n atomic.Int64
				c.CreateTrigger(name, op.Col, func(r column.Reader) { n.Add(1) })
				rYield(ptBetween)
				c.DropTrigger(name)
			case "count":
				c.Count()
			}
		}
		hasTxnOps := false
		for _, op := range prog.Ops {
			switch op.Kind {
			case "snapshot", "restore", "mkindex", "mktrigger", "count":
			default:
				hasTxnOps = true
			}
		}
		if !hasTxnOps {
			rYield(ptTxnEdge)
			continue
		}
		var inserted []uint32
		var deleted []uint32
		c.Query(func(txn *column.Txn) error {
			for oi := range prog.Ops {
				op := &prog.Ops[oi]
				target := func() (uint32, bool) {
					switch op.Target.Mode {
					case "own":
						if len(own) == 0 {
							return 0, false
						}
						return own[op.Target.K%len(own)], true
					default:
						if len(stable) == 0 {
							return 0, false
						}
						return stable[op.Target.K%len(stable)], true
					}
				}
				switch op.Kind {
				case "insert":
					if keyed {
						txn.UpsertKey(op.Key, func(r column.Row) error {
							for _, wr := range op.Writes {
								if col, ok := colOf(cols, wr.Col); ok {
									raceIssue(txn, r, col, wr, true)
								}
							}
							return nil
						})
						break
					}
					off, err := txn.Insert(func(r column.Row) error {
						for _, wr := range op.Writes {
							if col, ok := colOf(cols, wr.Col); ok {
								raceIssue(txn, r, col, wr, true)
							}
						}
						return nil
					})
					if err == nil {
						inserted = append(inserted, off)
					}
				case "at":
					if off, ok := target(); ok {
						txn.QueryAt(off, func(r column.Row) error {
							for _, col := range cols {
								readCol(txn, r, col, flRow)
								if op.Yield {
									rYield(ptInRead)
								}
							}
							for _, wr := range op.Writes {
								if col, ok := colOf(cols, wr.Col); ok {
									raceIssue(txn, r, col, wr, true)
								}
							}
							return nil
						})
					}
				case "delete":
					if off, ok := target(); ok && op.Target.Mode == "own" {
						if txn.DeleteAt(off) {
							deleted = append(deleted, off)
						}
					}
				case "querykey":
					txn.QueryKey(op.Key, func(r column.Row) error {
						for _, col := range cols {
							readCol(txn, r, col, flRow)
						}
						return nil
					})
				case "range":
					for _, f := range op.Filter {
						switch f.Kind {
						case "with":
							txn.With(f.Names...)
						case "without":
							txn.Without(f.Names...)
						case "union":
							txn.Union(f.Names...)
						case "withvalue":
							if col, ok := colOf(cols, f.Names[0]); ok {
								txn.WithValue(col.Name, anyPred(f.Pred, col.Kind))
							}
						case "withstring":
							p := f.Pred
							txn.WithString(f.Names[0], func(v string) bool { return strPred(p, v) })
						case "withfloat":
							th := f.Pred.F
							txn.WithFloat(f.Names[0], func(v float64) bool { return v > th })
						}
					}
					n := 0
					txn.Range(func(idx uint32) {
						if n >= 6 {
							return
						}
						n++
						for _, col := range cols {
							readCol(txn, column.Row{}, col, flTxn)
						}
						if op.Yield {
							rYield(ptInRead)
						}
						isStable := false
						for _, o := range stable {
							isStable = isStable || o == idx
						}
						if isStable {
							for _, wr := range op.Writes {
								if col, ok := colOf(cols, wr.Col); ok && col.Kind != KKey {
									raceIssue(txn, column.Row{}, col, wr, false)
								}
							}
						}
					})
				case "agg":
					if col, ok := colOf(cols, op.Col); ok && col.Kind.Numeric() {
						nums[col.Kind].sum(txn, col.Name)
						nums[col.Kind].min(txn, col.Name)
					} else {
						txn.Count()
					}
				case "ascend":
					// (no yield inside the callback: the scan holds the b-tree's own lock, which belongs to a
					// dependency and is not a scheduling point; the race detector orders by happens-before,
					// not by overlap in time)
					txn.Ascend(op.Col, func(idx uint32) {})
				}
				rYield(ptBetween)
			}
			if prog.Abort {
				return errAbort
			}
			return nil
		})
		if !prog.Abort {
			own = append(own, inserted...)
			for _, d := range deleted {
				for i, o := range own {
					if o == d {
						own = append(own[:i:i], own[i+1:]...)
						break
					}
				}
			}
		}
		rYield(ptTxnEdge)
	}
}

func predFamFor(k Kind) string {
	switch {
	case k == KBool:
		return "btrue"
	case k.Float():
		return "fgt"
	case k.Numeric():
		return "igt"
	}
	return "spre"
}
