package colsim

import (
	"github.com/kelindar/column"
)

// restart is the generated "crash-free restart": snapshot to a simulated file, restore the
// bytes through a chunked reader into a fresh collection with the same schema, and continue
// the history on the restored collection against the same model (C07).
func (w *World) restart(arg int) {
	rng := NewRng(uint64(arg), 77)
	f := NewSimFile()
	if err := w.primary.Snapshot(f); err != nil {
		w.fail(violation("snapshot-error", "Snapshot of a quiescent collection returned %v", err))
		return
	}
	w.stats.fault("restart")
	indexesFirst := arg&1 == 0
	var idx []IndexSpec
	var sorts []SortSpec
	if indexesFirst {
		idx, sorts = w.model.Indexes, w.model.Sorts
	}
	fresh := w.newCollectionWith(w.tap, w.model.Cols, idx, sorts)
	maxChunk := []int{0, 1, 7, 512, 4096}[rng.Intn(5)]
	if maxChunk != 0 {
		w.stats.fault("read-chunking")
	}
	if err := fresh.Restore(NewSimReader(f.Data, rng, maxChunk)); err != nil {
		w.fail(violation("restore-error", "Restore of a complete snapshot (%d bytes) returned %v", len(f.Data), err))
		return
	}
	if !indexesFirst {
		for _, ix := range w.model.Indexes {
			if err := fresh.CreateIndex(ix.Name, ix.Col, ix.Pred.rule()); err != nil {
				panic(err)
			}
		}
		for _, sx := range w.model.Sorts {
			if err := fresh.CreateSortIndex(sx.Name, sx.Col); err != nil {
				panic(err)
			}
		}
	}
	old := w.primary
	w.primary = fresh
	old.Close()
	// triggers belonged to the old incarnation
	w.trig = newTrigLog(w)
	_ = column.SimBeforeLock
}
