package colsim

// Rng is the single source of every random choice in a simulated run (xoshiro256**
// seeded through splitmix64). Logging never draws from it.
type Rng struct{ s [4]uint64 }

func splitmix(x *uint64) uint64 {
	*x += 0x9e3779b97f4a7c15
	z := *x
	z = (z ^ (z >> 30)) * 0xbf58476d1ce4e5b9
	z = (z ^ (z >> 27)) * 0x94d049bb133111eb
	return z ^ (z >> 31)
}

// NewRng derives a generator from a seed and any number of stream discriminators.
func NewRng(seed uint64, streams ...uint64) *Rng {
	x := seed
	for _, s := range streams {
		x = splitmix(&x) ^ (s * 0xd6e8feb86659fd93)
	}
	r := &Rng{}
	for i := range r.s {
		r.s[i] = splitmix(&x)
	}
	return r
}

func rotl(x uint64, k uint) uint64 { return (x << k) | (x >> (64 - k)) }

func (r *Rng) Uint64() uint64 {
	res := rotl(r.s[1]*5, 7) * 9
	t := r.s[1] << 17
	r.s[2] ^= r.s[0]
	r.s[3] ^= r.s[1]
	r.s[1] ^= r.s[2]
	r.s[0] ^= r.s[3]
	r.s[2] ^= t
	r.s[3] = rotl(r.s[3], 45)
	return res
}

// Intn returns a value in [0,n). n must be > 0.
func (r *Rng) Intn(n int) int {
	if n <= 1 {
		return 0
	}
	return int(r.Uint64() % uint64(n))
}

// Range returns a value in [lo,hi].
func (r *Rng) Range(lo, hi int) int {
	if hi <= lo {
		return lo
	}
	return lo + r.Intn(hi-lo+1)
}

func (r *Rng) Float() float64 { return float64(r.Uint64()>>11) / (1 << 53) }

// Chance is true with probability p.
func (r *Rng) Chance(p float64) bool { return r.Float() < p }

// Weighted picks an index with probability proportional to its weight.
func (r *Rng) Weighted(w []int) int {
	t := 0
	for _, x := range w {
		t += x
	}
	if t <= 0 {
		return 0
	}
	k := r.Intn(t)
	for i, x := range w {
		if k < x {
			return i
		}
		k -= x
	}
	return len(w) - 1
}

// fnv-1a running hash used for event logs and interleaving signatures
type hash64 uint64

const hashInit hash64 = 14695981039346656037

func (h hash64) add(v uint64) hash64 {
	for i := 0; i < 8; i++ {
		h ^= hash64(v & 0xff)
		h *= 1099511628211
		v >>= 8
	}
	return h
}

func (h hash64) addStr(s string) hash64 {
	for i := 0; i < len(s); i++ {
		h ^= hash64(s[i])
		h *= 1099511628211
	}
	return h.add(uint64(len(s)))
}
