package colsim

import (
	"fmt"
	"runtime"
	"strings"
	"sync"
	"testing/synctest"
	"time"
	"unsafe"

	"github.com/kelindar/column"
	"github.com/kelindar/smutex"
)

// Point kinds: 1..9 are the repo hooks (column.Sim*), the rest are harness yields.
const (
	ptStart    uint8 = 20 // thread not started yet
	ptBetween  uint8 = 21 // between two operations of a transaction body
	ptInRead   uint8 = 22 // between two column reads inside a row callback (read latch held)
	ptTxnEdge  uint8 = 23 // between two transactions (nothing held)
	ptDiskIO   uint8 = 24 // inside a Write of the snapshot destination (a slow disk: whatever the writing thread holds stays held)
	ptLinkWait uint8 = 25 // applier waiting for a delayed commit
	ptIdle     uint8 = 26 // the vacuum goroutine is back at its ticker
	ptClock    uint8 = 27 // the clock pseudo-thread: picking it advances the fake clock
	ptInMerge  uint8 = 28 // inside a user merge function called by a column's Apply (write latch and column read lock held)
	ptMuLock   uint8 = 29 // before a sync.Mutex / sync.RWMutex acquisition (instrumented build: every lock site of the library)
	ptMax      uint8 = 32
)

var pointName = map[uint8]string{
	1: "BeforeRLock", 2: "BeforeLock", 3: "AfterUnlock", 4: "MidCommit1", 5: "MidCommit2", 6: "MidCommit3",
	7: "AfterReserve", 8: "KeyChecked", 9: "SnapshotPhase", 10: "IndexBuild",
	ptStart: "start", ptBetween: "betweenOps", ptInRead: "inRead", ptTxnEdge: "txnEdge", ptLinkWait: "linkWait", ptIdle: "vacuumIdle", ptClock: "clockAdvance", ptInMerge: "inMergeFn", ptMuLock: "beforeMutex", ptDiskIO: "diskWrite",
}

// Point is where a simulated thread is parked.
type Point struct {
	Kind  uint8
	Coll  *column.Collection
	Latch *smutex.SMutex128
	Arg   uint32
	Ready func() bool // optional extra enabledness condition (harness waits)
	// ptMuLock: the mutex about to be acquired (peeked like the latches: every other thread is
	// parked outside package sync)
	Mu      unsafe.Pointer
	MuRW    bool // sync.RWMutex (else sync.Mutex)
	MuWrite bool // Lock (else RLock)
}

// Thread is one simulated thread: a real goroutine that runs only while it holds the baton.
type Thread struct {
	ID          int
	Name        string
	resume      chan struct{}
	pt          Point
	started     bool
	done        bool
	body        func(*Thread)
	prio        int
	panicV      any
	panicAt     string
	steps       int
	role        string
	foreign     bool        // not started by the simulator: the collection's own vacuum goroutine
	atPassStart bool        // foreign thread parked at the first hook of a new pass
	inline      func() bool // pseudo-thread executed on the scheduler goroutine; returns false when finished
	stallUntil  int         // fault "stall": not scheduled before this step unless nothing else can run
}

// stallRule is one "slow node" fault of the case: see Fault.
type stallRule struct {
	role string
	kind uint8
	arg  int // -1 = any
	n    int
	used bool
}

// Sim is the controlled scheduler. Exactly one simulated thread runs at any time; which one
// is decided here, from the PRNG (or a recorded schedule), among the threads whose next
// action cannot block given the real state of the block latches.
type Sim struct {
	threads   []*Thread
	cur       *Thread
	inbox     chan struct{}
	rng       *Rng
	strategy  string
	replay    []int16
	Sched     []int16
	steps     int
	maxSteps  int
	drain     bool // over budget or stopping: no more choices, just finish
	trace     hash64
	ilv       hash64
	choices   int // decisions with more than one enabled thread
	muted     [ptMax]bool
	hits      [ptMax]int
	last      *Thread
	burst     int
	pctAt     []int
	afterStep func(t *Thread) // world callback on the scheduler goroutine after each step
	onPick    func(t *Thread, enabled int)
	watchdog  time.Duration
	hung      string
	// bubble mode (C17): the run executes inside a testing/synctest bubble; the scheduler
	// detects "parked, finished or back at the ticker" with synctest.Wait and an inbox poll
	bubble     bool
	inspecting bool // the scheduler goroutine itself is running library code
	vacuum     *Thread
	onForeign  func(t *Thread, wasIdle bool)
	gate       func(t *Thread) bool // extra enabledness condition decided by the world
	onIdle     func(t *Thread)
	stalls     []*stallRule
	faults     map[string]int // scheduler-level faults that actually fired
}

// AddStalls installs the stall faults of a case.
func (s *Sim) AddStalls(faults []Fault) {
	for _, f := range faults {
		if f.Kind == "stall" && f.N > 0 {
			s.stalls = append(s.stalls, &stallRule{role: f.Role, kind: uint8(f.At), arg: f.Arg - 1, n: f.N})
		}
	}
}

func (s *Sim) noteFault(name string) {
	if s.faults == nil {
		s.faults = map[string]int{}
	}
	s.faults[name]++
}

func NewSim(rng *Rng, strategy string, replay []int16) *Sim {
	s := &Sim{inbox: make(chan struct{}, 1), rng: rng, strategy: strategy, replay: replay, maxSteps: 4000,
		trace: hashInit, ilv: hashInit, watchdog: 20 * time.Second}
	return s
}

// Go registers a simulated thread. It starts running when first picked.
func (s *Sim) Go(name string, body func(*Thread)) *Thread {
	t := &Thread{ID: len(s.threads), Name: name, resume: make(chan struct{}), body: body, pt: Point{Kind: ptStart}}
	s.threads = append(s.threads, t)
	return t
}

// GoRole registers a thread with a role tag the world can test.
func (s *Sim) GoRole(role, name string, body func(*Thread)) *Thread {
	t := s.Go(name, body)
	t.role = role
	return t
}

func (s *Sim) threadMain(t *Thread) {
	<-t.resume
	defer func() {
		if r := recover(); r != nil {
			t.panicV = r
			t.panicAt = panicFrame()
		}
		t.done = true
		s.inbox <- struct{}{}
	}()
	t.body(t)
}

// panicFrame returns the innermost frame inside the library (or the harness) of a panic.
func panicFrame() string {
	pc := make([]uintptr, 64)
	n := runtime.Callers(3, pc)
	frames := runtime.CallersFrames(pc[:n])
	first := ""
	for {
		f, more := frames.Next()
		fn := f.Function
		if strings.Contains(fn, "github.com/kelindar/") {
			return shortFunc(fn)
		}
		if first == "" && strings.HasPrefix(fn, "colsim.") {
			first = shortFunc(fn)
		}
		if !more {
			break
		}
	}
	return first
}

func shortFunc(fn string) string {
	if i := strings.LastIndex(fn, "/"); i >= 0 {
		fn = fn[i+1:]
	}
	// drop generic instantiation noise
	if i := strings.Index(fn, "["); i >= 0 {
		if j := strings.LastIndex(fn, "]"); j > i {
			fn = fn[:i] + fn[j+1:]
		}
	}
	return fn
}

// Yield parks the current simulated thread at a harness yield point.
func (s *Sim) Yield(kind uint8) {
	if s == nil || s.cur == nil {
		return
	}
	s.park(Point{Kind: kind})
}

// WaitUntil parks the current thread until ready() holds (evaluated by the scheduler).
func (s *Sim) WaitUntil(kind uint8, ready func() bool) {
	if s == nil || s.cur == nil {
		return
	}
	s.park(Point{Kind: kind, Ready: ready})
}

// foreignArrive is called from a hook reached by a goroutine the simulator did not start
// while no simulated thread is current: in bubble mode that is the collection's vacuum
// goroutine, which becomes one more simulated thread parked at this hook.
func (s *Sim) foreignArrive(pt Point) {
	v := s.vacuum
	if v == nil {
		v = &Thread{ID: len(s.threads), Name: "vacuum", role: "vacuum", resume: make(chan struct{}), started: true, foreign: true}
		v.pt = Point{Kind: ptIdle}
		s.threads = append(s.threads, v)
		s.vacuum = v
	}
	wasIdle := v.pt.Kind == ptIdle
	s.hits[pt.Kind]++
	v.pt = pt
	v.atPassStart = wasIdle
	if s.onForeign != nil {
		s.onForeign(v, wasIdle)
	}
	<-v.resume
}

var dbgPark func(s *Sim, pt Point)

func (s *Sim) park(pt Point) {
	if dbgPark != nil {
		dbgPark(s, pt)
	}
	s.hits[pt.Kind]++
	if s.muted[pt.Kind] && pt.Ready == nil && enabledAt(pt) && pt.Kind != ptStart {
		return
	}
	t := s.cur
	t.pt = pt
	for _, r := range s.stalls {
		if !r.used && r.kind == pt.Kind && (r.role == "" || r.role == t.role) && (r.arg < 0 || uint32(r.arg) == pt.Arg) {
			r.used = true
			t.stallUntil = s.steps + r.n
			s.noteFault("thread-stall/" + pointName[pt.Kind])
			break
		}
	}
	s.inbox <- struct{}{}
	<-t.resume
}

// latchState peeks the real sync.RWMutex of a shard. Every other simulated thread is parked
// outside package sync, so the words are stable and the answer is exact.
func latchState(l *smutex.SMutex128, shard uint32) (readers int32, writer bool) {
	p := unsafe.Add(unsafe.Pointer(l), uintptr(shard%128)*64)
	return rwState(p)
}

//go:norace
func rwState(p unsafe.Pointer) (readers int32, writer bool) {
	wstate := *(*int32)(p)
	rc := *(*int32)(unsafe.Add(p, 16))
	if rc < 0 {
		return rc + (1 << 30), true
	}
	return rc, wstate&1 != 0
}

// muFree reports whether an acquisition of the mutex would succeed at once.
//
//go:norace
func muFree(p unsafe.Pointer, rw, write bool) bool {
	if !rw {
		return *(*int32)(p)&1 == 0 // sync.Mutex: state bit 0 = locked
	}
	readers, writer := rwState(p)
	if write {
		return !writer && readers == 0
	}
	return !writer
}

// muPtr extracts the mutex behind the value the instrumented code passes (&X for the
// receiver expression X of X.Lock()).
//
//go:norace
func muPtr(mu any) (p unsafe.Pointer, rw, ok bool) {
	switch m := mu.(type) {
	case *sync.RWMutex:
		return unsafe.Pointer(m), true, true
	case **sync.RWMutex:
		return unsafe.Pointer(*m), true, *m != nil
	case *sync.Mutex:
		return unsafe.Pointer(m), false, true
	case **sync.Mutex:
		return unsafe.Pointer(*m), false, *m != nil
	case *sync.Locker:
		if *m != nil {
			return muPtr(*m) // a mutex held through the sync.Locker interface
		}
	}
	return nil, false, false
}

func enabledAt(pt Point) bool {
	switch pt.Kind {
	case ptIdle:
		return false
	case uint8(column.SimBeforeRLock):
		if _, w := latchState(pt.Latch, pt.Arg); w {
			return false
		}
	case uint8(column.SimBeforeLock):
		if r, w := latchState(pt.Latch, pt.Arg); w || r != 0 {
			return false
		}
	case ptMuLock:
		if !muFree(pt.Mu, pt.MuRW, pt.MuWrite) {
			return false
		}
	}
	if pt.Ready != nil {
		return pt.Ready()
	}
	return true
}

// DeadlockError reports that unfinished threads exist and none can run.
type DeadlockError struct{ Desc string }

func (e *DeadlockError) Error() string { return "deadlock: " + e.Desc }

// HangError reports that a released thread neither yielded nor finished.
type HangError struct {
	Desc   string
	InLock bool
}

func (e *HangError) Error() string { return "hang: " + e.Desc }

// PanicError reports a panic inside a simulated thread.
type PanicError struct {
	Thread string
	Val    any
	At     string
}

func (e *PanicError) Error() string {
	return fmt.Sprintf("panic in %s at %s: %v", e.Thread, e.At, e.Val)
}

// Run schedules the registered threads until all have finished.
func (s *Sim) Run() error {
	s.initStrategy()
	// stall rules naming the start point delay the first step of a thread ("starts late")
	for _, t := range s.threads {
		for _, r := range s.stalls {
			if !r.used && r.kind == ptStart && t.pt.Kind == ptStart && t.stallUntil == 0 && (r.role == "" || r.role == t.role) {
				r.used = true
				t.stallUntil = r.n
				s.noteFault("thread-stall/start")
			}
		}
	}
	var enabled, stalled []*Thread
	for {
		enabled, stalled = enabled[:0], stalled[:0]
		unfinished := 0
		for _, t := range s.threads {
			if t.done || (t.foreign && t.pt.Kind == ptIdle) {
				continue
			}
			unfinished++
			if enabledAt(t.pt) && (s.gate == nil || s.gate(t)) {
				if t.stallUntil > s.steps && !s.drain {
					stalled = append(stalled, t)
				} else {
					enabled = append(enabled, t)
				}
			}
		}
		if unfinished == 0 {
			return nil
		}
		if len(enabled) == 0 && len(stalled) > 0 {
			// everybody else is blocked or finished: the stall ends early
			enabled = append(enabled, stalled...)
			for _, t := range stalled {
				t.stallUntil = 0
			}
			s.noteFault("thread-stall-cut-short")
		}
		if len(enabled) == 0 {
			return &DeadlockError{Desc: s.describe()}
		}
		t := s.pick(enabled)
		s.Sched = append(s.Sched, int16(t.ID))
		s.steps++
		t.steps++
		if s.steps > s.maxSteps {
			s.drain = true
		}
		s.trace = s.trace.add(uint64(t.ID)<<40 | uint64(t.pt.Kind)<<32 | uint64(t.pt.Arg))
		if len(enabled) > 1 {
			s.choices++
			s.ilv = s.ilv.add(uint64(t.ID)<<40 | uint64(t.pt.Kind)<<32 | uint64(t.pt.Arg>>0))
		}
		if s.onPick != nil {
			s.onPick(t, len(enabled))
		}
		s.last = t
		if t.inline != nil {
			// pseudo-thread (clock): runs on the scheduler goroutine, no simulated thread is current
			if !t.inline() {
				t.done = true
			}
			if s.afterStep != nil {
				s.afterStep(t)
			}
			continue
		}
		s.cur = t
		t.atPassStart = false
		if !t.started {
			t.started = true
			go s.threadMain(t)
		}
		t.resume <- struct{}{}
		if err := s.await(t); err != nil {
			return err
		}
		s.cur = nil
		if t.panicV != nil {
			return &PanicError{Thread: t.Name, Val: t.panicV, At: t.panicAt}
		}
		if s.afterStep != nil {
			s.afterStep(t)
		}
	}
}

func (s *Sim) await(t *Thread) error {
	if s.bubble {
		// returns when every other goroutine of the bubble is durably blocked; the fake
		// clock does not advance
		synctest.Wait()
		select {
		case <-s.inbox:
			return nil
		default:
		}
		if t.foreign {
			// the vacuum finished its pass and is back at its ticker
			t.pt = Point{Kind: ptIdle}
			if s.onIdle != nil {
				s.onIdle(t)
			}
			return nil
		}
		return &HangError{Desc: fmt.Sprintf("thread %s released at %s is blocked on something the simulator does not control", t.Name, pointName[t.pt.Kind]), InLock: true}
	}
	select {
	case <-s.inbox:
		return nil
	default:
	}
	timer := time.NewTimer(s.watchdog)
	defer timer.Stop()
	select {
	case <-s.inbox:
		return nil
	case <-timer.C:
		buf := make([]byte, 1<<20)
		buf = buf[:runtime.Stack(buf, true)]
		dump := string(buf)
		inLock := false
		for _, g := range strings.Split(dump, "\n\n") {
			if strings.Contains(g, "colsim.(*Sim).threadMain") &&
				(strings.Contains(g, "sync.(*RWMutex).") || strings.Contains(g, "sync.(*Mutex).") || strings.Contains(g, "sync.runtime_Semacquire")) {
				inLock = true
			}
		}
		s.hung = dump
		return &HangError{Desc: fmt.Sprintf("thread %s released at %s did not yield within %v", t.Name, pointName[t.pt.Kind], s.watchdog), InLock: inLock}
	}
}

func (s *Sim) describe() string {
	var b strings.Builder
	for _, t := range s.threads {
		if t.done {
			continue
		}
		r, w := int32(0), false
		if t.pt.Latch != nil {
			r, w = latchState(t.pt.Latch, t.pt.Arg)
		}
		fmt.Fprintf(&b, "[%s at %s/%d readers=%d writer=%v] ", t.Name, pointName[t.pt.Kind], t.pt.Arg, r, w)
	}
	return b.String()
}

// ---------------------------------------------------------------------------------
// strategies

var strategies = []string{"uniform", "sticky", "pct1", "pct2", "pct3", "rr", "phase"}

func (s *Sim) initStrategy() {
	n := len(s.threads)
	perm := make([]int, n)
	for i := range perm {
		perm[i] = i
	}
	for i := n - 1; i > 0; i-- {
		j := s.rng.Intn(i + 1)
		perm[i], perm[j] = perm[j], perm[i]
	}
	for i, t := range s.threads {
		t.prio = perm[i] + 10
	}
	d := 0
	switch s.strategy {
	case "pct1":
		d = 1
	case "pct2":
		d = 2
	case "pct3":
		d = 3
	}
	for i := 0; i < d; i++ {
		s.pctAt = append(s.pctAt, 1+s.rng.Intn(120))
	}
}

func (s *Sim) pick(enabled []*Thread) *Thread {
	step := s.steps
	if step < len(s.replay) {
		want := int(s.replay[step])
		for _, t := range enabled {
			if t.ID == want {
				return t
			}
		}
		return enabled[0]
	}
	if s.replay != nil || s.drain {
		// past the recorded schedule (shrunk case) or draining: keep the current thread going
		for _, t := range enabled {
			if t == s.last {
				return t
			}
		}
		return enabled[0]
	}
	if len(enabled) == 1 {
		return enabled[0]
	}
	switch s.strategy {
	case "sticky":
		for _, t := range enabled {
			if t == s.last && s.rng.Chance(0.8) {
				return t
			}
		}
		return enabled[s.rng.Intn(len(enabled))]
	case "rr":
		if s.burst > 0 {
			for _, t := range enabled {
				if t == s.last {
					s.burst--
					return t
				}
			}
		}
		s.burst = s.rng.Intn(6)
		return enabled[s.rng.Intn(len(enabled))]
	case "pct1", "pct2", "pct3", "phase":
		if s.strategy == "phase" {
			// re-draw a priority exactly when some thread reached a protocol point
			for _, t := range enabled {
				switch t.pt.Kind {
				case uint8(column.SimBeforeLock), uint8(column.SimAfterReserve), uint8(column.SimKeyChecked), uint8(column.SimSnapshotPhase), uint8(column.SimMidCommit3):
					if t == s.last && s.rng.Chance(0.5) {
						t.prio = s.rng.Intn(8)
					}
				}
			}
		}
		for _, at := range s.pctAt {
			if at == step && s.last != nil {
				s.last.prio = s.rng.Intn(8)
			}
		}
		best := enabled[0]
		for _, t := range enabled[1:] {
			if t.prio > best.prio {
				best = t
			}
		}
		return best
	}
	return enabled[s.rng.Intn(len(enabled))]
}

// selfTestLatchPeek checks the assumed sync.RWMutex layout against TryLock/TryRLock.
func selfTestLatchPeek() error {
	var mu sync.Mutex
	var rwm sync.RWMutex
	if !muFree(unsafe.Pointer(&mu), false, true) || !muFree(unsafe.Pointer(&rwm), true, true) || !muFree(unsafe.Pointer(&rwm), true, false) {
		return fmt.Errorf("mutex peek self-test failed: idle mutex seen as held")
	}
	mu.Lock()
	rwm.RLock()
	if muFree(unsafe.Pointer(&mu), false, true) || muFree(unsafe.Pointer(&rwm), true, true) || !muFree(unsafe.Pointer(&rwm), true, false) {
		return fmt.Errorf("mutex peek self-test failed: held sync.Mutex / read-held sync.RWMutex misread")
	}
	mu.Unlock()
	rwm.RUnlock()
	rwm.Lock()
	if muFree(unsafe.Pointer(&rwm), true, false) || muFree(unsafe.Pointer(&rwm), true, true) {
		return fmt.Errorf("mutex peek self-test failed: write-held sync.RWMutex seen as free")
	}
	rwm.Unlock()
	if !muFree(unsafe.Pointer(&mu), false, true) || !muFree(unsafe.Pointer(&rwm), true, true) {
		return fmt.Errorf("mutex peek self-test failed: released mutex seen as held")
	}
	var l smutex.SMutex128
	for _, shard := range []uint32{0, 1, 77, 127, 128 + 5} {
		chk := func(wantR int32, wantW bool, what string) error {
			r, w := latchState(&l, shard)
			if r != wantR || w != wantW {
				return fmt.Errorf("latch peek self-test failed (%s, shard %d): got readers=%d writer=%v want %d %v", what, shard, r, w, wantR, wantW)
			}
			return nil
		}
		if err := chk(0, false, "idle"); err != nil {
			return err
		}
		l.RLock(uint(shard))
		if err := chk(1, false, "1 reader"); err != nil {
			return err
		}
		l.RLock(uint(shard))
		if err := chk(2, false, "2 readers"); err != nil {
			return err
		}
		l.RUnlock(uint(shard))
		l.RUnlock(uint(shard))
		l.Lock(uint(shard))
		if err := chk(0, true, "writer"); err != nil {
			return err
		}
		if enabledAt(Point{Kind: uint8(column.SimBeforeRLock), Latch: &l, Arg: shard}) {
			return fmt.Errorf("latch peek self-test: RLock enabled under writer")
		}
		l.Unlock(uint(shard))
		if err := chk(0, false, "idle again"); err != nil {
			return err
		}
	}
	return nil
}
