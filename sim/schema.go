package colsim

import (
	"encoding/binary"
	"errors"
	"fmt"
	"math"

	"github.com/kelindar/column"
	"github.com/kelindar/column/commit"
)

// Kind is a column kind of the simulated schema.
type Kind string

const (
	KInt     Kind = "int"
	KInt16   Kind = "int16"
	KInt32   Kind = "int32"
	KInt64   Kind = "int64"
	KUint    Kind = "uint"
	KUint16  Kind = "uint16"
	KUint32  Kind = "uint32"
	KUint64  Kind = "uint64"
	KFloat32 Kind = "float32"
	KFloat64 Kind = "float64"
	KBool    Kind = "bool"
	KString  Kind = "string"
	KEnum    Kind = "enum"
	KKey     Kind = "key"
	KRecord  Kind = "record"
)

var numericKinds = []Kind{KInt, KInt16, KInt32, KInt64, KUint, KUint16, KUint32, KUint64, KFloat32, KFloat64}

func (k Kind) Numeric() bool { _, ok := nums[k]; return ok }
func (k Kind) Textual() bool { return k == KString || k == KEnum || k == KKey || k == KRecord }
func (k Kind) Float() bool   { return k == KFloat32 || k == KFloat64 }
func (k Kind) Mergeable() bool {
	return k.Numeric() || k == KString || k == KRecord
}

// Val is a column value: numbers as a canonical 64-bit pattern (signed kinds
// sign-extended, float32 as its 32 bits), everything textual as bytes. Long strings are
// stored as a pattern repeated to length L so that replay files stay small.
type Val struct {
	U uint64 `json:"u,omitempty"`
	B []byte `json:"b,omitempty"`
	L int    `json:"l,omitempty"`
}

func (v Val) Bytes() []byte {
	if v.L == 0 || len(v.B) == 0 {
		return v.B
	}
	out := make([]byte, v.L)
	for i := range out {
		out[i] = v.B[i%len(v.B)]
	}
	return out
}

func (v Val) Str() string { return string(v.Bytes()) }

func strVal(s string) Val { return Val{B: []byte(s)} }

// MVal is a value held by the model (always fully expanded).
type MVal struct {
	U uint64
	S string
}

func (v Val) M(k Kind) MVal {
	if k.Textual() {
		return MVal{S: v.Str()}
	}
	return MVal{U: v.U}
}

func (m MVal) show(k Kind) string {
	if k.Textual() {
		if len(m.S) > 40 {
			return fmt.Sprintf("%q..(%d bytes)", m.S[:40], len(m.S))
		}
		return fmt.Sprintf("%q", m.S)
	}
	if k == KBool {
		return fmt.Sprint(m.U != 0)
	}
	if n, ok := nums[k]; ok {
		return n.show(m.U)
	}
	return fmt.Sprint(m.U)
}

// ColSpec describes one column of the simulated schema.
type ColSpec struct {
	Name  string `json:"name"`
	Kind  Kind   `json:"kind"`
	Merge string `json:"merge,omitempty"` // "" default, "affine" (numbers: v*3+d), "concat" / "short" (strings: append / keep the shorter), "sum" (records)
}

// PredSpec is a predicate family instance usable as an index rule and as a filter.
type PredSpec struct {
	Fam string  `json:"fam"` // "igt" r.Int()>I, "ugt" r.Uint()>U, "fgt" r.Float()>F, "seq" r.String()==S, "spre" first byte < S[0], "btrue" r.Bool()
	I   int64   `json:"i,omitempty"`
	F   float64 `json:"f,omitempty"`
	S   string  `json:"s,omitempty"`
}

// rule returns the index rule as given to CreateIndex.
func (p PredSpec) rule() func(column.Reader) bool {
	switch p.Fam {
	case "igt":
		th := int(p.I)
		return func(r column.Reader) bool { return r.Int() > th }
	case "ugt":
		th := uint(p.I)
		return func(r column.Reader) bool { return r.Uint() > th }
	case "fgt":
		th := p.F
		return func(r column.Reader) bool { return r.Float() > th }
	case "seq":
		s := p.S
		return func(r column.Reader) bool { return r.String() == s }
	case "spre":
		s := p.S
		return func(r column.Reader) bool { v := r.String(); return len(v) > 0 && v[:1] < s }
	case "btrue":
		return func(r column.Reader) bool { return r.Bool() }
	}
	panic("bad predicate family " + p.Fam)
}

func (p PredSpec) String() string {
	switch p.Fam {
	case "igt", "ugt":
		return fmt.Sprintf("%s %d", p.Fam, p.I)
	case "fgt":
		return fmt.Sprintf("fgt %v", p.F)
	case "btrue":
		return "btrue"
	}
	return fmt.Sprintf("%s %q", p.Fam, p.S)
}

// IndexSpec is a bitmap index over a column.
type IndexSpec struct {
	Name string   `json:"name"`
	Col  string   `json:"col"`
	Pred PredSpec `json:"pred"`
}

// evalRule evaluates an index rule on a model value by showing it to the rule through a
// real commit.Reader over the value encoded the way the column kind encodes it, so that
// the rule sees exactly what the library would show it.
func evalRule(p PredSpec, k Kind, v MVal) bool {
	if k.Numeric() && !k.Float() && v.U>>63 == 0 {
		// a non-negative integer (of any width, signed or not) that fits 63 bits has one meaning
		// through the generic integer accessors, whatever the encoding: the rule is evaluated on
		// the number itself, not through the library's reader
		switch p.Fam {
		case "igt":
			return int(v.U) > int(p.I)
		case "ugt":
			return uint(v.U) > uint(p.I)
		}
	}
	buf := commit.NewBuffer(16)
	buf.Reset("x")
	putVal(buf, commit.Put, 5, k, v)
	r := commit.NewReader()
	r.Seek(buf)
	if !r.Next() {
		panic("evalRule: empty")
	}
	return p.rule()(r)
}

// putVal appends a value to a commit buffer using the Put* call the library uses for the kind.
func putVal(buf *commit.Buffer, op commit.OpType, off uint32, k Kind, v MVal) {
	switch k {
	case KInt:
		buf.PutInt(op, off, int(int64(v.U)))
	case KInt16:
		buf.PutInt16(op, off, int16(v.U))
	case KInt32:
		buf.PutInt32(op, off, int32(v.U))
	case KInt64:
		buf.PutInt64(op, off, int64(v.U))
	case KUint:
		buf.PutUint(op, off, uint(v.U))
	case KUint16:
		buf.PutUint16(op, off, uint16(v.U))
	case KUint32:
		buf.PutUint32(op, off, uint32(v.U))
	case KUint64:
		buf.PutUint64(op, off, v.U)
	case KFloat32:
		buf.PutFloat32(op, off, math.Float32frombits(uint32(v.U)))
	case KFloat64:
		buf.PutFloat64(op, off, math.Float64frombits(v.U))
	case KBool:
		buf.PutBool(off, v.U != 0)
	default:
		buf.PutString(op, off, v.S)
	}
}

// ---------------------------------------------------------------------------------
// Record type used for record columns

// Rec is the binary-marshalled record stored in record columns.
type Rec struct {
	N uint32
	S string
}

func (r *Rec) MarshalBinary() ([]byte, error) {
	out := make([]byte, 4+len(r.S))
	binary.BigEndian.PutUint32(out, r.N)
	copy(out[4:], r.S)
	return out, nil
}

func (r *Rec) UnmarshalBinary(b []byte) error {
	if len(b) == 0 {
		r.N, r.S = 0, ""
		return nil
	}
	if len(b) < 4 {
		return errors.New("rec: short")
	}
	r.N = binary.BigEndian.Uint32(b)
	r.S = string(b[4:])
	return nil
}

func recMergeSum(v, d *Rec) *Rec { return &Rec{N: v.N + d.N, S: v.S + d.S} }

func recMergeSumYield(v, d *Rec) *Rec {
	mergeYield() // the decoded inputs belong to this call; a library that shares them across calls is caught here
	return &Rec{N: v.N + d.N, S: v.S + d.S}
}

func recBytes(n uint32, s string) []byte {
	b, _ := (&Rec{N: n, S: s}).MarshalBinary()
	return b
}

// ---------------------------------------------------------------------------------
// Typed access to numeric columns

type number interface {
	~int | ~int16 | ~int32 | ~int64 | ~uint | ~uint16 | ~uint32 | ~uint64 | ~float32 | ~float64
}

// numKind bundles, for one numeric kind, every way the library lets a caller write and
// read such a column, behind the canonical uint64 representation.
type numKind struct {
	kind    Kind
	bits    int
	make    func(merge string) column.Column
	set     func(r column.Row, name string, u uint64)
	merge   func(r column.Row, name string, u uint64)
	get     func(r column.Row, name string) (uint64, bool)
	tget    func(t *column.Txn, name string) (uint64, bool)
	tset    func(t *column.Txn, name string, u uint64)
	tmerge  func(t *column.Txn, name string, u uint64)
	fromAny func(v any) (uint64, bool)
	toAny   func(u uint64) any
	sum     func(t *column.Txn, name string) uint64
	avg     func(t *column.Txn, name string) float64
	min     func(t *column.Txn, name string) (uint64, bool)
	max     func(t *column.Txn, name string) (uint64, bool)
	// model side
	mmerge func(merge string, cur, delta uint64) uint64
	toI64  func(u uint64) int64
	toU64  func(u uint64) uint64
	toF64  func(u uint64) float64
	less   func(a, b uint64) bool
	show   func(u uint64) string
	canon  func(u uint64) uint64
}

type typedFns[T number] struct {
	make   func(opts ...func(T, T) T) column.Column
	set    func(r column.Row, name string, v T)
	merge  func(r column.Row, name string, v T)
	get    func(r column.Row, name string) (T, bool)
	tget   func(t *column.Txn, name string) (T, bool)
	tset   func(t *column.Txn, name string, v T)
	tmerge func(t *column.Txn, name string, v T)
	sum    func(t *column.Txn, name string) T
	avg    func(t *column.Txn, name string) float64
	min    func(t *column.Txn, name string) (T, bool)
	max    func(t *column.Txn, name string) (T, bool)
}

// affine is the order-sensitive merge function handed to the library (it yields to the
// scheduler, see mergeYield); affinePure is the same arithmetic for the model.
func affine[T number](v, d T) T {
	mergeYield()
	return affinePure(v, d)
}

// One machine-code body for library and model: with NaN operands the payload and sign of
// the result depend on operand order and instruction selection, which may differ between
// two inlined copies of the same expression.
//
//go:noinline
func affinePure[T number](v, d T) T { return v*3 + d }

// mergeYield is a harness yield point inside the user-supplied merge functions: the
// library calls them from a column's Apply, i.e. while the committing thread holds the
// block's write latch, which gives the scheduler a pre-emption point inside Apply without
// a repo hook. Only enabled in worlds where no column can grow meanwhile (a thread parked
// here holds the column's read lock).
func mergeYield() {
	if w := curWorld; w != nil && w.mergeYields && w.sim != nil && w.sim.cur != nil {
		w.sim.Yield(ptInMerge)
	}
}

func mkNum[T number](k Kind, bits int, from func(uint64) T, to func(T) uint64, f typedFns[T]) *numKind {
	return &numKind{
		kind: k, bits: bits,
		make: func(m string) column.Column {
			if m == "affine" {
				return f.make(affine[T])
			}
			return f.make()
		},
		set:    func(r column.Row, n string, u uint64) { f.set(r, n, from(u)) },
		merge:  func(r column.Row, n string, u uint64) { f.merge(r, n, from(u)) },
		get:    func(r column.Row, n string) (uint64, bool) { v, ok := f.get(r, n); return to(v), ok },
		tget:   func(t *column.Txn, n string) (uint64, bool) { v, ok := f.tget(t, n); return to(v), ok },
		tset:   func(t *column.Txn, n string, u uint64) { f.tset(t, n, from(u)) },
		tmerge: func(t *column.Txn, n string, u uint64) { f.tmerge(t, n, from(u)) },
		fromAny: func(v any) (uint64, bool) {
			x, ok := v.(T)
			return to(x), ok
		},
		toAny: func(u uint64) any { return from(u) },
		sum:   func(t *column.Txn, n string) uint64 { return to(f.sum(t, n)) },
		avg:   f.avg,
		min:   func(t *column.Txn, n string) (uint64, bool) { v, ok := f.min(t, n); return to(v), ok },
		max:   func(t *column.Txn, n string) (uint64, bool) { v, ok := f.max(t, n); return to(v), ok },
		mmerge: func(m string, cur, delta uint64) uint64 {
			if m == "affine" {
				return to(affinePure(from(cur), from(delta)))
			}
			return to(from(cur) + from(delta))
		},
		toI64: func(u uint64) int64 { return int64(from(u)) },
		toU64: func(u uint64) uint64 { return uint64(from(u)) },
		toF64: func(u uint64) float64 { return float64(from(u)) },
		less:  func(a, b uint64) bool { return from(a) < from(b) },
		show:  func(u uint64) string { return fmt.Sprintf("%v(%#x)", from(u), u) },
		canon: func(u uint64) uint64 { return to(from(u)) },
	}
}

var nums = map[Kind]*numKind{}

func init() {
	nums[KInt] = mkNum(KInt, 64, func(u uint64) int { return int(int64(u)) }, func(v int) uint64 { return uint64(int64(v)) }, typedFns[int]{
		make: func(o ...func(int, int) int) column.Column {
			if len(o) > 0 {
				return column.ForInt(column.WithMerge(o[0]))
			}
			return column.ForInt()
		},
		set: column.Row.SetInt, merge: column.Row.MergeInt, get: column.Row.Int,
		tget:   func(t *column.Txn, n string) (int, bool) { return t.Int(n).Get() },
		tset:   func(t *column.Txn, n string, v int) { t.Int(n).Set(v) },
		tmerge: func(t *column.Txn, n string, v int) { t.Int(n).Merge(v) },
		sum:    func(t *column.Txn, n string) int { return t.Int(n).Sum() },
		avg:    func(t *column.Txn, n string) float64 { return t.Int(n).Avg() },
		min:    func(t *column.Txn, n string) (int, bool) { return t.Int(n).Min() },
		max:    func(t *column.Txn, n string) (int, bool) { return t.Int(n).Max() },
	})
	nums[KInt16] = mkNum(KInt16, 16, func(u uint64) int16 { return int16(u) }, func(v int16) uint64 { return uint64(int64(v)) }, typedFns[int16]{
		make: func(o ...func(int16, int16) int16) column.Column {
			if len(o) > 0 {
				return column.ForInt16(column.WithMerge(o[0]))
			}
			return column.ForInt16()
		},
		set: column.Row.SetInt16, merge: column.Row.MergeInt16, get: column.Row.Int16,
		tget:   func(t *column.Txn, n string) (int16, bool) { return t.Int16(n).Get() },
		tset:   func(t *column.Txn, n string, v int16) { t.Int16(n).Set(v) },
		tmerge: func(t *column.Txn, n string, v int16) { t.Int16(n).Merge(v) },
		sum:    func(t *column.Txn, n string) int16 { return t.Int16(n).Sum() },
		avg:    func(t *column.Txn, n string) float64 { return t.Int16(n).Avg() },
		min:    func(t *column.Txn, n string) (int16, bool) { return t.Int16(n).Min() },
		max:    func(t *column.Txn, n string) (int16, bool) { return t.Int16(n).Max() },
	})
	nums[KInt32] = mkNum(KInt32, 32, func(u uint64) int32 { return int32(u) }, func(v int32) uint64 { return uint64(int64(v)) }, typedFns[int32]{
		make: func(o ...func(int32, int32) int32) column.Column {
			if len(o) > 0 {
				return column.ForInt32(column.WithMerge(o[0]))
			}
			return column.ForInt32()
		},
		set: column.Row.SetInt32, merge: column.Row.MergeInt32, get: column.Row.Int32,
		tget:   func(t *column.Txn, n string) (int32, bool) { return t.Int32(n).Get() },
		tset:   func(t *column.Txn, n string, v int32) { t.Int32(n).Set(v) },
		tmerge: func(t *column.Txn, n string, v int32) { t.Int32(n).Merge(v) },
		sum:    func(t *column.Txn, n string) int32 { return t.Int32(n).Sum() },
		avg:    func(t *column.Txn, n string) float64 { return t.Int32(n).Avg() },
		min:    func(t *column.Txn, n string) (int32, bool) { return t.Int32(n).Min() },
		max:    func(t *column.Txn, n string) (int32, bool) { return t.Int32(n).Max() },
	})
	nums[KInt64] = mkNum(KInt64, 64, func(u uint64) int64 { return int64(u) }, func(v int64) uint64 { return uint64(v) }, typedFns[int64]{
		make: func(o ...func(int64, int64) int64) column.Column {
			if len(o) > 0 {
				return column.ForInt64(column.WithMerge(o[0]))
			}
			return column.ForInt64()
		},
		set: column.Row.SetInt64, merge: column.Row.MergeInt64, get: column.Row.Int64,
		tget:   func(t *column.Txn, n string) (int64, bool) { return t.Int64(n).Get() },
		tset:   func(t *column.Txn, n string, v int64) { t.Int64(n).Set(v) },
		tmerge: func(t *column.Txn, n string, v int64) { t.Int64(n).Merge(v) },
		sum:    func(t *column.Txn, n string) int64 { return t.Int64(n).Sum() },
		avg:    func(t *column.Txn, n string) float64 { return t.Int64(n).Avg() },
		min:    func(t *column.Txn, n string) (int64, bool) { return t.Int64(n).Min() },
		max:    func(t *column.Txn, n string) (int64, bool) { return t.Int64(n).Max() },
	})
	nums[KUint] = mkNum(KUint, 64, func(u uint64) uint { return uint(u) }, func(v uint) uint64 { return uint64(v) }, typedFns[uint]{
		make: func(o ...func(uint, uint) uint) column.Column {
			if len(o) > 0 {
				return column.ForUint(column.WithMerge(o[0]))
			}
			return column.ForUint()
		},
		set: column.Row.SetUint, merge: column.Row.MergeUint, get: column.Row.Uint,
		tget:   func(t *column.Txn, n string) (uint, bool) { return t.Uint(n).Get() },
		tset:   func(t *column.Txn, n string, v uint) { t.Uint(n).Set(v) },
		tmerge: func(t *column.Txn, n string, v uint) { t.Uint(n).Merge(v) },
		sum:    func(t *column.Txn, n string) uint { return t.Uint(n).Sum() },
		avg:    func(t *column.Txn, n string) float64 { return t.Uint(n).Avg() },
		min:    func(t *column.Txn, n string) (uint, bool) { return t.Uint(n).Min() },
		max:    func(t *column.Txn, n string) (uint, bool) { return t.Uint(n).Max() },
	})
	nums[KUint16] = mkNum(KUint16, 16, func(u uint64) uint16 { return uint16(u) }, func(v uint16) uint64 { return uint64(v) }, typedFns[uint16]{
		make: func(o ...func(uint16, uint16) uint16) column.Column {
			if len(o) > 0 {
				return column.ForUint16(column.WithMerge(o[0]))
			}
			return column.ForUint16()
		},
		set: column.Row.SetUint16, merge: column.Row.MergeUint16, get: column.Row.Uint16,
		tget:   func(t *column.Txn, n string) (uint16, bool) { return t.Uint16(n).Get() },
		tset:   func(t *column.Txn, n string, v uint16) { t.Uint16(n).Set(v) },
		tmerge: func(t *column.Txn, n string, v uint16) { t.Uint16(n).Merge(v) },
		sum:    func(t *column.Txn, n string) uint16 { return t.Uint16(n).Sum() },
		avg:    func(t *column.Txn, n string) float64 { return t.Uint16(n).Avg() },
		min:    func(t *column.Txn, n string) (uint16, bool) { return t.Uint16(n).Min() },
		max:    func(t *column.Txn, n string) (uint16, bool) { return t.Uint16(n).Max() },
	})
	nums[KUint32] = mkNum(KUint32, 32, func(u uint64) uint32 { return uint32(u) }, func(v uint32) uint64 { return uint64(v) }, typedFns[uint32]{
		make: func(o ...func(uint32, uint32) uint32) column.Column {
			if len(o) > 0 {
				return column.ForUint32(column.WithMerge(o[0]))
			}
			return column.ForUint32()
		},
		set: column.Row.SetUint32, merge: column.Row.MergeUint32, get: column.Row.Uint32,
		tget:   func(t *column.Txn, n string) (uint32, bool) { return t.Uint32(n).Get() },
		tset:   func(t *column.Txn, n string, v uint32) { t.Uint32(n).Set(v) },
		tmerge: func(t *column.Txn, n string, v uint32) { t.Uint32(n).Merge(v) },
		sum:    func(t *column.Txn, n string) uint32 { return t.Uint32(n).Sum() },
		avg:    func(t *column.Txn, n string) float64 { return t.Uint32(n).Avg() },
		min:    func(t *column.Txn, n string) (uint32, bool) { return t.Uint32(n).Min() },
		max:    func(t *column.Txn, n string) (uint32, bool) { return t.Uint32(n).Max() },
	})
	nums[KUint64] = mkNum(KUint64, 64, func(u uint64) uint64 { return u }, func(v uint64) uint64 { return v }, typedFns[uint64]{
		make: func(o ...func(uint64, uint64) uint64) column.Column {
			if len(o) > 0 {
				return column.ForUint64(column.WithMerge(o[0]))
			}
			return column.ForUint64()
		},
		set: column.Row.SetUint64, merge: column.Row.MergeUint64, get: column.Row.Uint64,
		tget:   func(t *column.Txn, n string) (uint64, bool) { return t.Uint64(n).Get() },
		tset:   func(t *column.Txn, n string, v uint64) { t.Uint64(n).Set(v) },
		tmerge: func(t *column.Txn, n string, v uint64) { t.Uint64(n).Merge(v) },
		sum:    func(t *column.Txn, n string) uint64 { return t.Uint64(n).Sum() },
		avg:    func(t *column.Txn, n string) float64 { return t.Uint64(n).Avg() },
		min:    func(t *column.Txn, n string) (uint64, bool) { return t.Uint64(n).Min() },
		max:    func(t *column.Txn, n string) (uint64, bool) { return t.Uint64(n).Max() },
	})
	nums[KFloat32] = mkNum(KFloat32, 32, func(u uint64) float32 { return math.Float32frombits(uint32(u)) }, func(v float32) uint64 { return uint64(math.Float32bits(v)) }, typedFns[float32]{
		make: func(o ...func(float32, float32) float32) column.Column {
			if len(o) > 0 {
				return column.ForFloat32(column.WithMerge(o[0]))
			}
			return column.ForFloat32()
		},
		set: column.Row.SetFloat32, merge: column.Row.MergeFloat32, get: column.Row.Float32,
		tget:   func(t *column.Txn, n string) (float32, bool) { return t.Float32(n).Get() },
		tset:   func(t *column.Txn, n string, v float32) { t.Float32(n).Set(v) },
		tmerge: func(t *column.Txn, n string, v float32) { t.Float32(n).Merge(v) },
		sum:    func(t *column.Txn, n string) float32 { return t.Float32(n).Sum() },
		avg:    func(t *column.Txn, n string) float64 { return t.Float32(n).Avg() },
		min:    func(t *column.Txn, n string) (float32, bool) { return t.Float32(n).Min() },
		max:    func(t *column.Txn, n string) (float32, bool) { return t.Float32(n).Max() },
	})
	nums[KFloat64] = mkNum(KFloat64, 64, func(u uint64) float64 { return math.Float64frombits(u) }, func(v float64) uint64 { return math.Float64bits(v) }, typedFns[float64]{
		make: func(o ...func(float64, float64) float64) column.Column {
			if len(o) > 0 {
				return column.ForFloat64(column.WithMerge(o[0]))
			}
			return column.ForFloat64()
		},
		set: column.Row.SetFloat64, merge: column.Row.MergeFloat64, get: column.Row.Float64,
		tget:   func(t *column.Txn, n string) (float64, bool) { return t.Float64(n).Get() },
		tset:   func(t *column.Txn, n string, v float64) { t.Float64(n).Set(v) },
		tmerge: func(t *column.Txn, n string, v float64) { t.Float64(n).Merge(v) },
		sum:    func(t *column.Txn, n string) float64 { return t.Float64(n).Sum() },
		avg:    func(t *column.Txn, n string) float64 { return t.Float64(n).Avg() },
		min:    func(t *column.Txn, n string) (float64, bool) { return t.Float64(n).Min() },
		max:    func(t *column.Txn, n string) (float64, bool) { return t.Float64(n).Max() },
	})
}

// mergeShort is the user merge "keep the shorter one": unlike concatenation its result can
// be strictly shorter than the delta.
func mergeShort(v, d string) string {
	if v != "" && len(v) < len(d) {
		return v
	}
	return d
}

// makeColumn builds the library column for a spec.
func makeColumn(c ColSpec) column.Column {
	switch c.Kind {
	case KBool:
		return column.ForBool()
	case KString:
		if c.Merge == "concat" {
			return column.ForString(column.WithMerge(func(v, d string) string { mergeYield(); return v + d }))
		}
		if c.Merge == "short" {
			return column.ForString(column.WithMerge(func(v, d string) string { mergeYield(); return mergeShort(v, d) }))
		}
		return column.ForString()
	case KEnum:
		return column.ForEnum()
	case KKey:
		return column.ForKey()
	case KRecord:
		if c.Merge == "sum" {
			return column.ForRecord(func() *Rec { return new(Rec) }, column.WithMerge(recMergeSumYield))
		}
		return column.ForRecord(func() *Rec { return new(Rec) })
	}
	return nums[c.Kind].make(c.Merge)
}

// modelMerge computes the model's result of merging delta into cur (cur is the zero value
// when the row holds nothing in the column).
func modelMerge(c ColSpec, cur, delta MVal) MVal {
	switch c.Kind {
	case KString:
		if c.Merge == "concat" {
			return MVal{S: cur.S + delta.S}
		}
		if c.Merge == "short" {
			return MVal{S: mergeShort(cur.S, delta.S)}
		}
		return MVal{S: delta.S}
	case KRecord:
		if c.Merge != "sum" {
			return MVal{S: delta.S}
		}
		var a, b Rec
		if a.UnmarshalBinary([]byte(cur.S)) != nil || b.UnmarshalBinary([]byte(delta.S)) != nil {
			return cur
		}
		out, _ := recMergeSum(&a, &b).MarshalBinary()
		return MVal{S: string(out)}
	}
	return MVal{U: nums[c.Kind].mmerge(c.Merge, cur.U, delta.U)}
}
