package colsim

import (
	"fmt"

	"github.com/kelindar/column"
	"github.com/kelindar/column/commit"
)

// TapOp is one decoded operation of an emitted commit.
type TapOp struct {
	Type commit.OpType
	Off  uint32
	Val  []byte
}

// TapBuf is one column's operations for the commit's block, in buffer order.
type TapBuf struct {
	Col string
	Ops []TapOp
}

// TapCommit is a commit as received by the recording logger.
type TapCommit struct {
	ID     uint64
	Chunk  uint32
	Thread int
	Seq    uint64
	Bufs   []TapBuf
	mt     *MTxn // the transaction that emitted it (when known)
}

// Tap is the recording commit.Logger installed as Options.Writer. The real commit path
// calls it inside the block's exclusive latch, which gives the per-block emission order
// and the identity of the committing thread without any extra hook. It forwards every
// commit to the configured sinks (a real commit.Channel, a real commit.Log, ...).
type Tap struct {
	w        *World
	Commits  []*TapCommit
	Sinks    []commit.Logger
	failAt   int  // inject an Append error at the n-th commit and every later one (0 = never)
	failOnce bool // ... at the n-th commit only
	onAppend func(tc *TapCommit, c commit.Commit)
}

func (t *Tap) Append(c commit.Commit) error {
	w := t.w
	w.seq++
	tc := &TapCommit{ID: c.ID, Chunk: uint32(c.Chunk), Thread: w.tid(), Seq: w.seq, Bufs: decodeCommit(c)}
	t.Commits = append(t.Commits, tc)
	if t.onAppend != nil {
		t.onAppend(tc, c)
	}
	var first error
	for _, s := range t.Sinks {
		if err := s.Append(c); err != nil && first == nil {
			first = err
		}
	}
	if t.failAt > 0 && len(t.Commits) >= t.failAt && (!t.failOnce || len(t.Commits) == t.failAt) {
		// fault: the writer of the change stream reports an error (a full disk, a broken pipe)
		w.stats.fault("stream-writer-error")
		if first == nil {
			first = errStreamWriter
		}
	}
	return first
}

var errStreamWriter = fmt.Errorf("colsim: injected error of the change stream's writer")

// decodeCommit reads the commit's block out of every buffer with a private reader.
func decodeCommit(c commit.Commit) []TapBuf {
	var out []TapBuf
	r := commit.NewReader()
	for _, b := range c.Updates {
		tb := TapBuf{Col: b.Column}
		r.Range(b, c.Chunk, func(r *commit.Reader) {
			for r.Next() {
				tb.Ops = append(tb.Ops, TapOp{Type: r.Type, Off: r.Index(), Val: append([]byte(nil), r.Bytes()...)})
			}
		})
		if len(tb.Ops) > 0 {
			out = append(out, tb)
		}
	}
	return out
}

func (c *TapCommit) String() string {
	s := fmt.Sprintf("commit{id=%d block=%d thread=%d", c.ID, c.Chunk, c.Thread)
	for _, b := range c.Bufs {
		s += fmt.Sprintf(" %s:%d", b.Col, len(b.Ops))
	}
	return s + "}"
}

// ---------------------------------------------------------------------------------
// trigger log (C19)

type trigEvent struct {
	Trig   string
	Off    uint32
	Delete bool
	Raw    uint64 // numeric payload as stored (zero-extended to 64 bit)
	S      string
}

type trigLog struct {
	w        *World
	watch    map[string]string // trigger name -> column
	order    []string
	got      []trigEvent
	expected []trigEvent
}

func newTrigLog(w *World) *trigLog { return &trigLog{w: w, watch: map[string]string{}} }

func (t *trigLog) create(c *column.Collection, name, col string) error {
	kind := KString
	if cs, ok := t.w.model.Col(col); ok {
		kind = cs.Kind
	}
	err := c.CreateTrigger(name, col, func(r column.Reader) {
		ev := trigEvent{Trig: name, Off: r.Index(), Delete: r.IsDelete()}
		if !ev.Delete {
			if kind.Numeric() {
				ev.Raw = uint64(r.Uint())
			} else {
				ev.S = string(r.Bytes())
			}
		}
		t.got = append(t.got, ev)
	})
	if err == nil {
		t.watch[name] = col
		t.order = append(t.order, name)
	}
	return err
}

func (t *trigLog) drop(c *column.Collection, name string) error {
	if _, ok := t.watch[name]; !ok {
		return nil // created on an earlier incarnation of the collection (before a restart)
	}
	err := c.DropTrigger(name)
	delete(t.watch, name)
	for i, n := range t.order {
		if n == name {
			t.order = append(t.order[:i], t.order[i+1:]...)
			break
		}
	}
	return err
}

// expect records what the triggers must be told about a block's committed changes.
func (t *trigLog) expect(changes []Change) {
	for _, name := range t.order {
		col := t.watch[name]
		cs, _ := t.w.model.Col(col)
		for _, ch := range changes {
			switch {
			case ch.Delete:
				t.expected = append(t.expected, trigEvent{Trig: name, Off: ch.Off, Delete: true})
			case ch.Col == col:
				ev := trigEvent{Trig: name, Off: ch.Off}
				if cs.Kind.Numeric() {
					ev.Raw = ch.Val.U
					if b := nums[cs.Kind].bits; b < 64 {
						ev.Raw &= 1<<uint(b) - 1
					}
				} else {
					ev.S = ch.Val.S
				}
				t.expected = append(t.expected, ev)
			}
		}
	}
}

// check compares, per trigger and per row, the sequence of stores and the number of
// deletions seen by the callback with the model's committed changes, then clears both.
func (t *trigLog) check() *Violation {
	defer func() { t.got, t.expected = t.got[:0], t.expected[:0] }()
	type key struct {
		trig string
		off  uint32
	}
	split := func(evs []trigEvent) (map[key][]trigEvent, map[key]int, []key) {
		stores, dels := map[key][]trigEvent{}, map[key]int{}
		var order []key
		seen := map[key]bool{}
		for _, e := range evs {
			k := key{e.Trig, e.Off}
			if !seen[k] {
				seen[k] = true
				order = append(order, k)
			}
			if e.Delete {
				dels[k]++
			} else {
				stores[k] = append(stores[k], e)
			}
		}
		return stores, dels, order
	}
	gs, gd, gorder := split(t.got)
	es, ed, eorder := split(t.expected)
	for _, k := range append(eorder, gorder...) {
		g, e := gs[k], es[k]
		if len(g) != len(e) {
			class := "trigger/missing-store"
			if len(g) > len(e) {
				class = "trigger/extra-store"
			}
			return violation(class, "trigger %q row %d: callback saw %d stores, the transaction committed %d", k.trig, k.off, len(g), len(e))
		}
		for i := range g {
			if g[i].Raw != e[i].Raw || g[i].S != e[i].S {
				return violation("trigger/value", "trigger %q row %d store #%d: callback saw (%#x,%q), finally stored value is (%#x,%q)", k.trig, k.off, i, g[i].Raw, clip(g[i].S), e[i].Raw, clip(e[i].S))
			}
		}
		if gd[k] != ed[k] {
			class := "trigger/missing-delete"
			if gd[k] > ed[k] {
				class = "trigger/extra-delete"
			}
			return violation(class, "trigger %q row %d: callback saw %d deletions, the transaction committed %d", k.trig, k.off, gd[k], ed[k])
		}
	}
	return nil
}

func clip(s string) string {
	if len(s) > 32 {
		return s[:32] + "..."
	}
	return s
}
