package colsim

import (
	"encoding/json"
	"fmt"
	"os"
	"runtime"
	"runtime/debug"
	"strconv"
	"strings"
	"testing"
	"time"
)

// WorkerResult is what one worker process reports to the driver.
type WorkerResult struct {
	Prop         string            `json:"prop"`
	From, To     int               `json:"-"`
	Runs         int               `json:"runs"`
	Nontrivial   int               `json:"nontrivial"`
	Steps        int               `json:"steps"`
	Choices      int               `json:"choices"`
	Txns         int               `json:"txns"`
	Commits      int               `json:"commits"`
	Aborts       int               `json:"aborts"`
	Ops          int               `json:"ops"`
	Dumps        int               `json:"dumps"`
	Reads        int               `json:"reads"`
	Checks       int               `json:"checks"`
	SimTimeNs    int64             `json:"sim_time_ns"`
	Faults       map[string]int    `json:"faults"`
	Probes       map[string]int    `json:"probes"`
	Hooks        map[string]int    `json:"hooks"`
	Ilv          []uint64          `json:"ilv"`        // distinct interleaving signatures
	EndStates    []uint64          `json:"end_states"` // distinct end states
	Inconclusive map[string]int    `json:"inconclusive"`
	Violations   []ViolationReport `json:"violations"`
	Samples      []json.RawMessage `json:"samples"`
	WallS        float64           `json:"wall_s"`
	Stopped      string            `json:"stopped,omitempty"`
	Next         int               `json:"next"`
	KnownHits    int               `json:"known_hits"`
	Tainted      bool              `json:"tainted,omitempty"`
	Distinct     []uint64          `json:"distinct"`
	Traces       []uint64          `json:"traces,omitempty"`
}

// ViolationReport is one violation found by a worker, with its replay file.
type ViolationReport struct {
	Sig    string `json:"sig"`
	Detail string `json:"detail"`
	Run    int    `json:"run"`
	Replay string `json:"replay"`
	Trace  uint64 `json:"trace"`
	// Triggers lists the known-finding trigger situations that actually occurred in the run.
	Triggers []string `json:"triggers"`
	Known    bool     `json:"known,omitempty"` // matched an entry of known_findings.json (not minimised)
}

// knownEntry is one "known" entry of /verif/known_findings.json.
type knownEntry struct {
	Property  string `json:"property"`
	Signature string `json:"signature"`
	Trigger   string `json:"trigger"`
}

func loadKnown(path, prop string) (out []knownEntry) {
	if path == "" {
		return nil
	}
	b, err := os.ReadFile(path)
	if err != nil {
		return nil
	}
	var f struct {
		Known []knownEntry `json:"known"`
	}
	if json.Unmarshal(b, &f) != nil {
		return nil
	}
	for _, k := range f.Known {
		if k.Property == prop {
			out = append(out, k)
		}
	}
	return
}

// globMatch matches s against a pattern in which * stands for any (possibly empty)
// sequence of characters; every other character is literal.
func globMatch(pat, s string) bool {
	parts := strings.Split(pat, "*")
	if len(parts) == 1 {
		return pat == s
	}
	if !strings.HasPrefix(s, parts[0]) {
		return false
	}
	s = s[len(parts[0]):]
	for _, p := range parts[1 : len(parts)-1] {
		i := strings.Index(s, p)
		if i < 0 {
			return false
		}
		s = s[i+len(p):]
	}
	return strings.HasSuffix(s, parts[len(parts)-1])
}

// isKnown mirrors match_known of the driver: signature glob (a trailing * matches any
// suffix) and the trigger must have occurred in the run.
func isKnown(known []knownEntry, sig string, triggers []string) bool {
	for _, k := range known {
		if !globMatch(k.Signature, sig) {
			continue
		}
		if k.Trigger == "" {
			return true
		}
		for _, t := range triggers {
			if t == k.Trigger {
				return true
			}
		}
	}
	return false
}

func envInt(name string, def int) int {
	if v := os.Getenv(name); v != "" {
		n, err := strconv.ParseInt(v, 10, 64)
		if err == nil {
			return int(n)
		}
	}
	return def
}

func envU64(name string, def uint64) uint64 {
	if v := os.Getenv(name); v != "" {
		n, err := strconv.ParseUint(v, 10, 64)
		if err == nil {
			return n
		}
	}
	return def
}

// execCase runs a case and converts scheduler-level failures into violations or
// inconclusive results.
func execCase(def *PropDef, cs *Case) (w *World) {
	defer func() {
		if r := recover(); r != nil {
			// a panic on the scheduler goroutine (single-client worlds run there)
			at := panicFrame()
			if w == nil {
				w = newWorld(cs)
			}
			curWorld = nil
			w.fail(violation("panic/"+at, "panic: %v\n%s", r, clipStack(debug.Stack())))
		}
	}()
	// every run starts with an empty private temp dir: a file leaked by an earlier run of this
	// worker must not be charged to this one (and a replay in a fresh process starts empty too)
	if ents, err := os.ReadDir(os.TempDir()); err == nil && os.Getenv("COLSIM_PROP") != "" {
		for _, e := range ents {
			os.RemoveAll(os.TempDir() + "/" + e.Name())
		}
	}
	if cs.Prop != "C13" && cs.Prop != "C14" {
		// no collection inside a run: what sync.Pool hands out (pooled transactions and pages of
		// the library) must not depend on when the collector happens to run; the worker collects
		// between runs. (C13/C14 enumerate thousands of restores per run and keep the collector.)
		old := debug.SetGCPercent(-1)
		defer debug.SetGCPercent(old)
	}
	return def.Exec(cs)
}

func clipStack(b []byte) string {
	if len(b) > 3000 {
		b = b[:3000]
	}
	return string(b)
}

func TestWorker(t *testing.T) {
	prop := os.Getenv("COLSIM_PROP")
	if prop == "" {
		t.Skip("worker entry point; driven by /verif/check")
	}
	runtime.GOMAXPROCS(1)
	debug.SetGCPercent(100)
	curT = t
	if err := selfTestLatchPeek(); err != nil {
		fmt.Fprintln(os.Stderr, "SELFTEST-FAIL:", err)
		os.Exit(2)
	}
	if mp := os.Getenv("COLSIM_PROPS"); mp != "" {
		meta := map[string]any{}
		for id, d := range props {
			meta[id] = map[string]any{"quick": d.Quick, "thorough": d.Thorough, "level": d.Level, "rule": d.Rule, "real": d.Real, "stub": d.Stub, "assumptions": d.Assumptions, "unit": d.Unit}
		}
		b, _ := json.MarshalIndent(meta, "", " ")
		if err := os.WriteFile(mp, b, 0o644); err != nil {
			os.Exit(2)
		}
		return
	}
	def := props[prop]
	if def == nil {
		fmt.Fprintln(os.Stderr, "unknown property", prop)
		os.Exit(2)
	}
	out := os.Getenv("COLSIM_OUT")
	if rp := os.Getenv("COLSIM_REPLAY"); rp != "" {
		os.Exit(replayFile(def, rp, out))
	}
	seed := envU64("COLSIM_SEED", 1)
	tier := os.Getenv("COLSIM_TIER")
	from, to := envInt("COLSIM_FROM", 0), envInt("COLSIM_TO", 1)
	deadline := time.Unix(int64(envInt("COLSIM_DEADLINE", 1<<40)), 0)
	replayDir := os.Getenv("COLSIM_REPLAYDIR")
	maxViol := envInt("COLSIM_MAXVIOL", 2)
	minBudget := time.Duration(envInt("COLSIM_MINBUDGET", 30)) * time.Second
	start := time.Now()
	res := &WorkerResult{Prop: prop, Faults: map[string]int{}, Probes: map[string]int{}, Hooks: map[string]int{}, Inconclusive: map[string]int{}}
	ilv, ends, distinct := map[uint64]bool{}, map[uint64]bool{}, map[uint64]bool{}
	traces := os.Getenv("COLSIM_TRACES") != ""
	res.Next = to
	sigs := map[string]bool{}
	known := loadKnown(os.Getenv("COLSIM_KNOWN"), prop)
	knownSeen := map[string]bool{}
	for run := from; run < to; run++ {
		if time.Now().After(deadline) {
			res.Stopped = fmt.Sprintf("wall-clock cap reached at run %d of [%d,%d)", run, from, to)
			res.Next = run
			break
		}
		fmt.Fprintf(os.Stderr, "HB %d\n", run)
		// a single-P process allocating ~10 MB per collection outruns the concurrent collector:
		// collect between runs (the live heap is tiny at this point)
		runtime.GC()
		cs := def.Gen(seed, run, tier)
		w := execCase(def, cs)
		res.Runs++
		st := w.stats
		if st.Nontrivial {
			res.Nontrivial++
		}
		res.Steps += st.Steps
		res.Choices += st.Choices
		res.Txns += st.Txns
		res.Commits += st.Commits
		res.Aborts += st.Aborts
		res.Ops += st.Ops
		res.Dumps += st.Dumps
		res.Reads += st.Reads
		res.Checks += st.Checks
		res.SimTimeNs += st.SimTimeNs
		for k, v := range st.Faults {
			res.Faults[k] += v
		}
		for k, v := range st.Probes {
			res.Probes[k] += v
		}
		for k, v := range st.Hooks {
			res.Hooks[k] += v
		}
		if st.Nontrivial {
			ilv[st.Ilv] = true
			ends[st.EndState] = true
			distinct[uint64(hashInit.add(st.Ilv).add(st.EndState))] = true
		}
		if traces {
			res.Traces = append(res.Traces, st.Trace)
		}
		if w.incon != "" {
			res.Inconclusive[w.incon]++
		}
		if len(res.Samples) < 2 && st.Nontrivial && w.viol == nil {
			if b, err := json.Marshal(sampleOf(cs)); err == nil && len(b) < 20000 {
				res.Samples = append(res.Samples, b)
			}
		}
		if w.viol != nil {
			triggers := w.triggerList()
			anyKnown := false
			for vi, v := range append([]*Violation{w.viol}, w.extra...) {
				rep := ViolationReport{Sig: v.Sig, Detail: v.Detail, Run: run, Trace: st.Trace, Triggers: triggers}
				if isKnown(known, v.Sig, triggers) {
					rep.Known = true
					anyKnown = true
					if !knownSeen[v.Sig] {
						knownSeen[v.Sig] = true
						res.Violations = append(res.Violations, rep)
					}
					continue
				}
				if sigs[v.Sig] || replayDir == "" {
					if replayDir == "" {
						res.Violations = append(res.Violations, rep)
					}
					continue
				}
				sigs[v.Sig] = true
				cs.Expect = v
				cs.TraceHash = st.Trace
				if w.sim != nil {
					cs.Sched = w.sim.Sched
				}
				if w.raceSched != nil {
					cs.Sched = w.raceSched
				}
				min := cs
				if !def.NoMinimise && vi == 0 {
					min = minimise(def, cs, minBudget)
				}
				rep.Replay = fmt.Sprintf("%s/%s-%s-%d-%d.json", replayDir, prop, sanitize(v.Sig), seed, run)
				rep.Detail = min.Expect.Detail
				rep.Trace = min.TraceHash
				b, _ := json.MarshalIndent(min, "", " ")
				if err := os.WriteFile(rep.Replay, b, 0o644); err != nil {
					fmt.Fprintln(os.Stderr, "cannot write replay:", err)
					os.Exit(2)
				}
				res.Violations = append(res.Violations, rep)
			}
			if anyKnown {
				res.KnownHits++
			}
			if len(sigs) >= maxViol {
				res.Stopped = fmt.Sprintf("%d distinct violation signatures found; stopped at run %d", len(sigs), run)
				res.Next = run + 1
				break
			}
			if w.tainted() {
				res.Stopped = fmt.Sprintf("worker state tainted by %s at run %d", w.viol.Sig, run)
				res.Next = run + 1
				res.Tainted = true
				break
			}
		}
	}
	for k := range ilv {
		res.Ilv = append(res.Ilv, k)
	}
	for k := range ends {
		res.EndStates = append(res.EndStates, k)
	}
	for k := range distinct {
		res.Distinct = append(res.Distinct, k)
	}
	res.WallS = time.Since(start).Seconds()
	b, _ := json.Marshal(res)
	if out != "" {
		if err := os.WriteFile(out, b, 0o644); err != nil {
			fmt.Fprintln(os.Stderr, err)
			os.Exit(2)
		}
	} else {
		fmt.Println(string(b))
	}
}

// tainted reports whether the run left goroutines or latches behind (panic, deadlock,
// hang): the worker then stops and the driver starts a fresh process.
func (w *World) tainted() bool {
	return w.taint
}

func sanitize(s string) string {
	b := []byte(s)
	for i, c := range b {
		switch {
		case c >= 'a' && c <= 'z', c >= 'A' && c <= 'Z', c >= '0' && c <= '9', c == '-', c == '_', c == '.':
		default:
			b[i] = '_'
		}
	}
	if len(b) > 60 {
		b = b[:60]
	}
	return string(b)
}

// sampleOf is a compact rendering of a case for the evidence file.
func sampleOf(cs *Case) any {
	type sample struct {
		Run      int          `json:"run"`
		World    string       `json:"world"`
		Cfg      Config       `json:"cfg"`
		Schema   []ColSpec    `json:"schema"`
		Steps    []Step       `json:"steps,omitempty"`
		Threads  []ThreadProg `json:"threads,omitempty"`
		Faults   []Fault      `json:"faults,omitempty"`
		Strategy string       `json:"strategy,omitempty"`
	}
	s := sample{Run: cs.Run, World: cs.World, Cfg: cs.Cfg, Schema: cs.Schema, Faults: cs.Faults, Strategy: cs.Strategy}
	if len(cs.Steps) > 6 {
		s.Steps = cs.Steps[:6]
	} else {
		s.Steps = cs.Steps
	}
	s.Threads = cs.Threads
	return s
}

// replayFile re-executes a stored case; exit code 0 = reproduced exactly, 1 = different
// outcome, 2 = could not run.
func replayFile(def *PropDef, path, out string) int {
	b, err := os.ReadFile(path)
	if err != nil {
		fmt.Fprintln(os.Stderr, err)
		return 2
	}
	var cs Case
	if err := json.Unmarshal(b, &cs); err != nil {
		fmt.Fprintln(os.Stderr, err)
		return 2
	}
	w := execCase(def, &cs)
	type rr struct {
		Reproduced  bool       `json:"reproduced"`
		Got         *Violation `json:"got"`
		Want        *Violation `json:"want"`
		Trace       uint64     `json:"trace"`
		WantTrace   uint64     `json:"want_trace"`
		AnyUnlisted string     `json:"any_unlisted,omitempty"`
	}
	r := rr{Got: w.viol, Want: cs.Expect, Trace: w.stats.Trace, WantTrace: cs.TraceHash}
	r.Reproduced = w.viol != nil && cs.Expect != nil && w.viol.Sig == cs.Expect.Sig && w.stats.Trace == cs.TraceHash
	for _, ev := range w.extra {
		if cs.Expect != nil && ev.Sig == cs.Expect.Sig && w.stats.Trace == cs.TraceHash {
			r.Reproduced = true
		}
	}
	if def.NoMinimise && w.viol != nil && w.stats.Trace == cs.TraceHash {
		// race mode: the schedule replayed exactly; which of several racing pairs the detector
		// still holds in its bounded shadow state can differ between processes
		known := loadKnown(os.Getenv("COLSIM_KNOWN"), def.ID)
		for _, ev := range append([]*Violation{w.viol}, w.extra...) {
			if !isKnown(known, ev.Sig, w.triggerList()) {
				r.AnyUnlisted = ev.Sig
			}
		}
	}
	jb, _ := json.Marshal(r)
	if out != "" {
		os.WriteFile(out, jb, 0o644)
	}
	fmt.Println(string(jb))
	if w.viol != nil {
		fmt.Printf("replay: %s\n  %s\n", w.viol.Sig, w.viol.Detail)
	} else {
		fmt.Println("replay: no violation")
	}
	if r.Reproduced {
		return 0
	}
	return 1
}
