package colsim

import (
	"fmt"
	"runtime"
	"sort"

	"github.com/kelindar/column"
	"github.com/kelindar/column/commit"
	"github.com/kelindar/smutex"
	"github.com/zeebo/xxh3"
)

// World is one simulated universe: real collections, the reference model, the scheduler
// and the oracles' bookkeeping.
type World struct {
	cs          *Case
	sim         *Sim
	primary     *column.Collection
	model       *Model
	viol        *Violation
	incon       string // run ended inconclusive (deadlock/hang outside C18, step cap)
	stats       *RunStats
	txns        map[int]*MTxn // in-flight transaction per simulated thread (0 = single client)
	tap         *Tap
	colls       []*column.Collection
	inserts     map[int][]uint32 // offsets inserted by the thread's current transaction (Target mode "mine")
	trig        *trigLog
	trigRep     *trigLog                                                                 // C19: the same expectations for the triggers of a replica fed the stream
	seq         uint64                                                                   // global event sequence number
	hookFn      func(c *column.Collection, latch *smutex.SMutex128, p uint8, arg uint32) // extra per-world hook bookkeeping
	conc        *concState
	ttl         *ttlState
	onMuResume  map[int]func()                                              // see armResume
	ghostMade   bool                                                        // the primary was created with the unmodelled column "ghost"
	ghostLive   bool                                                        // the unmodelled column "ghost" exists on the primary right now
	mergeYields bool                                                        // user merge functions yield to the scheduler (see mergeYield)
	aggWatch    map[int]*aggWatch                                           // per thread: aggregate call in progress beside writers (C04 part B)
	capFor      map[int]*filterCapture                                      // per thread: filter chain being captured (C04 part B)
	raceSched   []int16                                                     // schedule taken by the race-mode scheduler
	extra       []*Violation                                                // further race reports of the same run
	readyFn     func(c *column.Collection, p uint8, arg uint32) func() bool // extra enabledness condition for the parking thread
	reserves    map[int]int                                                 // number of offsets reserved so far, per thread
	avoid       map[string]bool                                             // known-finding triggers this run steers around (Case.Cfg.Avoid)
	triggered   map[string]bool                                             // known-finding trigger situations that occurred in this run
	touched     []uint32                                                    // offsets touched by the last transaction (sampled dumps)
	taint       bool                                                        // goroutines or latches may have been left behind (panic, deadlock, hang)
}

func (w *World) taintedHard() bool { return false }

// noteTrigger records that a history feature which triggers a known finding occurred.
func (w *World) noteTrigger(name string) {
	if w.triggered == nil {
		w.triggered = map[string]bool{}
	}
	w.triggered[name] = true
}

func (w *World) triggerList() []string {
	out := []string{}
	for k := range w.triggered {
		out = append(out, k)
	}
	sort.Strings(out)
	return out
}

// RunStats is what one run reports for the evidence.
type RunStats struct {
	Steps      int            `json:"steps"`
	Choices    int            `json:"choices"`
	Txns       int            `json:"txns"`
	Commits    int            `json:"commits"`
	Aborts     int            `json:"aborts"`
	Ops        int            `json:"ops"`
	Dumps      int            `json:"dumps"`
	Reads      int            `json:"reads"`
	Faults     map[string]int `json:"faults,omitempty"`
	Probes     map[string]int `json:"probes,omitempty"`
	Hooks      map[string]int `json:"hooks,omitempty"`
	Ilv        uint64         `json:"ilv"`
	EndState   uint64         `json:"end_state"`
	Trace      uint64         `json:"trace"`
	SimTimeNs  int64          `json:"sim_time_ns,omitempty"`
	Checks     int            `json:"checks"`
	Nontrivial bool           `json:"nontrivial"`
}

func (st *RunStats) fault(k string) {
	if st.Faults == nil {
		st.Faults = map[string]int{}
	}
	st.Faults[k]++
}

func (st *RunStats) probe(k string) {
	if st.Probes == nil {
		st.Probes = map[string]int{}
	}
	st.Probes[k]++
}

var curWorld *World

func init() {
	column.SimHook = func(c *column.Collection, latch *smutex.SMutex128, p column.SimPoint, arg uint32) {
		if w := curWorld; w != nil {
			w.onHook(c, latch, uint8(p), arg)
		}
	}
}

// instrumented reports whether the simulator was built against the lock-instrumented copy.
var instrumented bool

// muHook runs before every mutex acquisition of the library in the instrumented build.
//
//go:norace
func muHook(mu any, write bool) {
	if rs != nil {
		raceMuHook(mu, write)
		return
	}
	w := curWorld
	if w == nil || w.sim == nil || w.sim.cur == nil || w.sim.bubble {
		return
	}
	p, rw, ok := muPtr(mu)
	if !ok {
		return
	}
	tid := w.sim.cur.ID
	w.sim.park(Point{Kind: ptMuLock, Mu: p, MuRW: rw, MuWrite: write})
	if f := w.onMuResume[tid]; f != nil {
		// one-shot: the first mutex the operation takes guards its linearization point
		delete(w.onMuResume, tid)
		f()
	}
}

// armResume registers (or clears, with nil) a callback that runs once, when the current
// thread is next released from a yield in front of a mutex: operations whose outcome is
// decided under a mutex the library takes inside the call (key lookups) re-evaluate the
// model's prediction there instead of before the call.
func (w *World) armResume(f func()) {
	if w.onMuResume == nil {
		w.onMuResume = map[int]func(){}
	}
	if f == nil {
		delete(w.onMuResume, w.tid())
		return
	}
	w.onMuResume[w.tid()] = f
}

func (w *World) fail(v *Violation) {
	if w.viol == nil && v != nil {
		w.viol = v
	}
}

func (w *World) stopped() bool {
	return w.viol != nil || w.incon != "" || (w.sim != nil && w.sim.drain)
}

func (w *World) tid() int {
	if w.sim != nil && w.sim.cur != nil {
		return w.sim.cur.ID
	}
	return 0
}

// onHook runs at every repo yield point: bookkeeping first (always), then the scheduling
// decision (only when a simulated thread is current).
func (w *World) onHook(c *column.Collection, latch *smutex.SMutex128, p uint8, arg uint32) {
	if c == w.primary && w.viol == nil {
		switch p {
		case uint8(column.SimAfterReserve):
			w.onReserve(arg)
		case uint8(column.SimMidCommit1):
			if t := w.txns[w.tid()]; t != nil {
				w.applyBlock(t, arg)
			}
		}
	}
	if dbgHook != nil {
		dbgHook(w, p, arg)
	}
	if w.hookFn != nil {
		w.hookFn(c, latch, p, arg)
	}
	if s := w.sim; s != nil && s.cur == nil && s.bubble && !s.inspecting {
		s.foreignArrive(Point{Kind: p, Coll: c, Latch: latch, Arg: arg})
		return
	}
	if s := w.sim; s != nil && s.cur != nil {
		pt := Point{Kind: p, Coll: c, Latch: latch, Arg: arg}
		if w.readyFn != nil {
			pt.Ready = w.readyFn(c, p, arg)
		}
		tid := s.cur.ID
		s.park(pt)
		if p == uint8(column.SimBeforeLock) && c == w.primary && w.conc != nil && w.txns[tid] != nil {
			w.latchTaken(tid, arg)
		}
		if p == uint8(column.SimMidCommit1) && c == w.primary {
			if mt := w.txns[tid]; mt != nil && mt.ghostOnly[arg] {
				if mt.ghostAtApply == nil {
					mt.ghostAtApply = map[uint32]bool{}
				}
				mt.ghostAtApply[arg] = w.ghostLive
			}
		}
		if fc := w.capFor[tid]; fc != nil && fc.active && p == uint8(column.SimBeforeRLock) && c == w.primary {
			// released: from here to the next hook the library works on this block under its read
			// latch; what it can see of the block is the model's committed state right now
			fc.add(w.model, arg)
		}
	}
}

// applyBlock applies one block of a committing transaction to the model (called while the
// committing thread holds the block's write latch).
func (w *World) applyBlock(t *MTxn, block uint32) {
	if t.applied[block] {
		return
	}
	changes := w.model.ApplyBlock(t, block)
	for _, aw := range w.aggWatch {
		aw.note(w.model, block)
	}
	if t.changes == nil {
		t.changes = map[uint32][]Change{}
	}
	t.changes[block] = changes
	// C12 invariant, checked the moment a key write is committed: one live row per key
	if kc, ok := w.model.KeyCol(); ok {
		for _, ch := range changes {
			if ch.Col != kc.Name || ch.Delete {
				continue
			}
			for off, r := range w.model.Rows {
				if v, has := r[kc.Name]; has && v.S == ch.Val.S && off != ch.Off {
					if _, live := w.model.Rows[ch.Off]; live {
						w.fail(violation("key/duplicate", "after the commit of thread %d the live rows %d and %d both hold key %q", t.Thread, minU32(off, ch.Off), maxU32(off, ch.Off), ch.Val.S))
						return
					}
				}
			}
		}
	}
	if w.trig != nil {
		w.trig.expect(changes)
	}
	if w.trigRep != nil {
		w.trigRep.expect(changes)
	}
}

// onReserve is the C11 oracle at the moment an insert is handed its offset.
func (w *World) onReserve(off uint32) {
	m := w.model
	_, reservedByOther := m.Reserved[off]
	if _, live := m.Rows[off]; (live || reservedByOther) && w.ttl != nil && w.ttl.vCommitting[off>>14] {
		// the cleanup is inside its commit of this block: its delete markers are applied, its
		// commit not yet emitted; the library handing out this offset means the cleanup freed it
		w.vacuumRemoves(off)
		w.ttl.earlyRemoved[off] = true
		if w.viol != nil {
			return
		}
	}
	if _, live := m.Rows[off]; live {
		if !w.deleteInFlight(off) {
			w.fail(violation("insert-collision/live", "insert was handed offset %d which holds a live row", off))
			return
		}
		w.stats.probe("offset-reused-while-its-delete-holds-the-latch")
	}
	if by, res := m.Reserved[off]; res {
		w.fail(violation("insert-collision/reserved", "insert was handed offset %d which is reserved by the in-flight insert of thread %d", off, by))
		return
	}
	m.Reserved[off] = w.tid()
	if w.reserves == nil {
		w.reserves = map[int]int{}
	}
	w.reserves[w.tid()]++
	m.notePeak()
	if bound := uint32(64 * ((m.PeakFill+63)/64 + 1)); off >= bound && w.cs.Cfg.Prefill == nil {
		w.fail(violation("insert-unbounded", "insert was handed offset %d although at most %d rows were ever live or reserved (bound %d)", off, m.PeakFill, bound))
	}
}

// newCollection creates a real collection with the case's schema.
func (w *World) newCollection(logger commit.Logger) *column.Collection {
	return w.newCollectionWith(logger, w.model.Cols, w.model.Indexes, w.model.Sorts)
}

func (w *World) newCollectionWith(logger commit.Logger, cols []ColSpec, idx []IndexSpec, sorts []SortSpec) *column.Collection {
	c := column.NewCollection(column.Options{Capacity: w.cs.Cfg.Capacity, Vacuum: vacuumNever, Writer: logger})
	if w.cs.Cfg.Params["ghost"] == 1 && logger != nil && logger == commit.Logger(w.tap) && w.conc != nil && !w.ghostMade {
		// the unmodelled column of the primary is registered FIRST: dropping it shifts every
		// other entry of the column registry
		if err := c.CreateColumn("ghost", column.ForInt64()); err != nil {
			panic(err)
		}
		w.ghostMade, w.ghostLive = true, true
	}
	for _, col := range cols {
		if col.Name == "expire" {
			continue
		}
		if nk, numeric := nums[col.Kind]; w.cs.Run%4 == 1 && col.Merge == "" && (numeric || col.Kind == KBool || col.Kind == KString) {
			// a quarter of the runs create their plain columns from an example value
			var example any
			switch {
			case numeric:
				example = nk.toAny(0)
			case col.Kind == KBool:
				example = false
			default:
				example = ""
			}
			if err := c.CreateColumnsOf(map[string]any{col.Name: example}); err != nil {
				panic(err)
			}
			continue
		}
		if err := c.CreateColumn(col.Name, makeColumn(col)); err != nil {
			panic(err)
		}
	}
	for _, ix := range idx {
		if err := c.CreateIndex(ix.Name, ix.Col, ix.Pred.rule()); err != nil {
			panic(err)
		}
	}
	for _, sx := range sorts {
		if err := c.CreateSortIndex(sx.Name, sx.Col); err != nil {
			panic(err)
		}
	}
	w.colls = append(w.colls, c)
	return c
}

func (w *World) close() {
	for _, c := range w.colls {
		c.Close()
	}
	w.colls = nil
	// let the cancelled vacuum goroutines run to their exit (single P: they only get the
	// processor when this goroutine yields) so that they stop pinning their collections
	runtime.Gosched()
}

// prefill populates a collection by replaying hand-built insert/delete commits, which
// costs ~100us per full block, and mirrors the survivors into the model as empty rows.
func (w *World) prefill(c *column.Collection, p *Prefill) {
	if p == nil || p.Blocks == 0 {
		return
	}
	keep := map[uint32]bool{}
	for _, o := range p.Survivors {
		keep[o] = true
	}
	full := map[int]bool{}
	for _, b := range p.KeepFull {
		full[b] = true
	}
	hole := map[uint32]bool{}
	for _, o := range p.Holes {
		hole[o] = true
	}
	id := uint64(1)
	blocks := []int{}
	for b := 0; b < p.Blocks; b++ {
		blocks = append(blocks, b)
	}
	blocks = append(blocks, p.Far...)
	for _, b := range blocks {
		buf := commit.NewBuffer(1 << 14)
		buf.Reset("row")
		for i := uint32(0); i < 1<<14; i++ {
			buf.PutOperation(commit.Insert, uint32(b)<<14+i)
		}
		if err := c.Replay(commit.Commit{ID: id, Chunk: commit.Chunk(b), Updates: []*commit.Buffer{buf}}); err != nil {
			panic(err)
		}
		id++
	}
	for _, b := range blocks {
		buf := commit.NewBuffer(1 << 14)
		buf.Reset("row")
		n := 0
		for i := uint32(0); i < 1<<14; i++ {
			off := uint32(b)<<14 + i
			if keep[off] || (full[b] && !hole[off]) {
				continue
			}
			buf.PutOperation(commit.Delete, off)
			n++
		}
		if n == 0 {
			continue
		}
		if err := c.Replay(commit.Commit{ID: id, Chunk: commit.Chunk(b), Updates: []*commit.Buffer{buf}}); err != nil {
			panic(err)
		}
		id++
	}
	w.prefillBulk(c, p)
	if rows, vals := enumBulkPlan(p); len(rows) > 0 {
		buf := commit.NewBuffer(1 << 21)
		buf.Reset(p.EnumBulk)
		for i, v := range vals {
			buf.PutString(commit.Put, rows[i%len(rows)], v)
		}
		if err := c.Replay(commit.Commit{ID: 990, Chunk: commit.Chunk(rows[0] >> 14), Updates: []*commit.Buffer{buf}}); err != nil {
			panic(err)
		}
	}
}

var enumBulkCache []string

// enumBulkValues returns n distinct strings no two of which collide in the 32-bit
// truncation of their xxh3 hash (the enum column's known interning limitation must play no
// part here), nor with the pair the known finding uses.
func enumBulkValues(n int) []string {
	if len(enumBulkCache) < n {
		seen := map[uint32]bool{uint32(xxh3.HashString(enumCollision[0])): true}
		for _, s := range enumAlphabet {
			seen[uint32(xxh3.HashString(s))] = true
		}
		enumBulkCache = enumBulkCache[:0]
		for i := 0; len(enumBulkCache) < n; i++ {
			s := fmt.Sprintf("bulk-enum-%d", i)
			if h := uint32(xxh3.HashString(s)); !seen[h] {
				seen[h] = true
				enumBulkCache = append(enumBulkCache, s)
			}
		}
	}
	return enumBulkCache[:n]
}

// enumBulkPlan returns the rows and values of the enum bulk load of a prefill (nil if none).
func enumBulkPlan(p *Prefill) ([]uint32, []string) {
	if p == nil || p.EnumBulk == "" || p.EnumBulkN == 0 || len(p.Survivors) == 0 {
		return nil, nil
	}
	var rows []uint32
	for _, o := range p.Survivors {
		if o>>14 == p.Survivors[0]>>14 && int(o>>14) < p.Blocks {
			rows = append(rows, o)
		}
	}
	if len(rows) == 0 {
		return nil, nil
	}
	return rows, enumBulkValues(p.EnumBulkN)
}

// bulkValue is the deterministic, incompressible value of a bulk-filled row.
func bulkValue(off uint32, n int) string {
	r := NewRng(uint64(off), 777)
	b := make([]byte, n)
	for i := range b {
		b[i] = byte(33 + r.Intn(90))
	}
	return string(b)
}

// prefillBulk stores a value in every live row of the KeepFull blocks through one
// hand-built commit per block.
func (w *World) prefillBulk(c *column.Collection, p *Prefill) {
	if p == nil || p.BulkCol == "" {
		return
	}
	hole := map[uint32]bool{}
	for _, o := range p.Holes {
		hole[o] = true
	}
	for _, b := range p.KeepFull {
		buf := commit.NewBuffer(1 << 21)
		buf.Reset(p.BulkCol)
		for i := uint32(0); i < 1<<14; i++ {
			if off := uint32(b)<<14 + i; !hole[off] {
				buf.PutString(commit.Put, off, bulkValue(off, p.BulkLen))
			}
		}
		if err := c.Replay(commit.Commit{ID: uint64(900 + b), Chunk: commit.Chunk(b), Updates: []*commit.Buffer{buf}}); err != nil {
			panic(err)
		}
	}
}

// prefillModel mirrors prefill into the model.
func prefillModel(m *Model, p *Prefill) {
	if p == nil || p.Blocks == 0 {
		return
	}
	for _, o := range p.Survivors {
		far := false
		for _, b := range p.Far {
			far = far || int(o>>14) == b
		}
		if int(o>>14) < p.Blocks || far {
			m.Rows[o] = map[string]MVal{}
		}
	}
	hole := map[uint32]bool{}
	for _, o := range p.Holes {
		hole[o] = true
	}
	for _, b := range p.KeepFull {
		if b >= p.Blocks {
			continue
		}
		for i := uint32(0); i < 1<<14; i++ {
			if off := uint32(b)<<14 + i; !hole[off] {
				m.Rows[off] = map[string]MVal{}
				if p.BulkCol != "" {
					m.Rows[off][p.BulkCol] = MVal{S: bulkValue(off, p.BulkLen)}
				}
			}
		}
	}
	if rows, vals := enumBulkPlan(p); len(rows) > 0 {
		for i, v := range vals {
			off := rows[i%len(rows)]
			if r, ok := m.Rows[off]; ok {
				r[p.EnumBulk] = MVal{S: v}
				m.touch(off, p.EnumBulk)
			}
		}
	}
	m.notePeak()
}

// stateHash summarises the model's committed state (distinct end states in the evidence).
func (m *Model) stateHash() uint64 {
	h := hashInit
	for _, o := range m.Live() {
		h = h.add(uint64(o))
		r := m.Rows[o]
		names := make([]string, 0, len(r))
		for n := range r {
			names = append(names, n)
		}
		sort.Strings(names)
		for _, n := range names {
			h = h.addStr(n).add(r[n].U).addStr(r[n].S)
		}
	}
	return uint64(h)
}

func (w *World) String() string { return fmt.Sprintf("world(%s/%s)", w.cs.Prop, w.cs.World) }

func minU32(a, b uint32) uint32 {
	if a < b {
		return a
	}
	return b
}

func maxU32(a, b uint32) uint32 {
	if a > b {
		return a
	}
	return b
}

var dbgHook func(w *World, p uint8, arg uint32)
