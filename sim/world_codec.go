package colsim

import (
	"bytes"
	"fmt"
	"sort"

	"github.com/kelindar/column/commit"
)

// FOp is one operation issued by the foreign producer F through the public Put* API.
type FOp struct {
	Type commit.OpType
	Off  uint32
	Val  []byte // raw value bytes as the reader must show them (nil for size-0 ops)
}

func (o FOp) String() string { return fmt.Sprintf("{%s @%d %x}", o.Type, o.Off, clipB(o.Val)) }

// decodeAll reads a whole buffer with Seek.
func decodeAll(b *commit.Buffer) []FOp {
	r := commit.NewReader()
	r.Seek(b)
	var out []FOp
	for r.Next() {
		out = append(out, FOp{Type: r.Type, Off: r.Index(), Val: append([]byte(nil), r.Bytes()...)})
	}
	return out
}

// decodeBlock reads one block of a buffer with Range.
func decodeBlock(b *commit.Buffer, block uint32) []FOp {
	r := commit.NewReader()
	var out []FOp
	r.Range(b, commit.Chunk(block), func(r *commit.Reader) {
		for r.Next() {
			out = append(out, FOp{Type: r.Type, Off: r.Index(), Val: append([]byte(nil), r.Bytes()...)})
		}
	})
	return out
}

func sameOps(a, b []FOp) (bool, string) {
	if len(a) != len(b) {
		return false, fmt.Sprintf("%d operations read back, %d written", len(a), len(b))
	}
	for i := range a {
		if a[i].Type != b[i].Type || a[i].Off != b[i].Off || !bytes.Equal(a[i].Val, b[i].Val) {
			return false, fmt.Sprintf("operation #%d read back as %s, written as %s", i, a[i], b[i])
		}
	}
	return true, ""
}

func opsOfBlock(ops []FOp, block uint32) []FOp {
	var out []FOp
	for _, o := range ops {
		if o.Off>>14 == block {
			out = append(out, o)
		}
	}
	return out
}

func blocksOf(ops []FOp) []uint32 {
	seen := map[uint32]bool{}
	var out []uint32
	for _, o := range ops {
		if !seen[o.Off>>14] {
			seen[o.Off>>14] = true
			out = append(out, o.Off>>14)
		}
	}
	sort.Slice(out, func(i, j int) bool { return out[i] < out[j] })
	return out
}

// fput issues one operation on a buffer the way a foreign producer would.
func fput(b *commit.Buffer, k Kind, op commit.OpType, off uint32, v MVal) FOp {
	switch {
	case k == "" || op == commit.Delete || op == commit.Insert:
		b.PutOperation(op, off)
		return FOp{Type: op, Off: off, Val: []byte{}}
	case k == KBool:
		b.PutBool(off, v.U != 0)
		if v.U != 0 {
			return FOp{Type: commit.PutTrue, Off: off, Val: []byte{}}
		}
		return FOp{Type: commit.PutFalse, Off: off, Val: []byte{}}
	}
	putVal(b, op, off, k, v)
	return FOp{Type: op, Off: off, Val: append([]byte{}, encodeVal(k, v)...)}
}

// codecChecks runs the buffer-level oracles of C05 on one buffer and its issued operations.
func (w *World) codecChecks(b *commit.Buffer, issued []FOp, rng *Rng) *Violation {
	w.stats.Checks++
	norm := func(ops []FOp) []FOp {
		for i := range ops {
			if ops[i].Val == nil {
				ops[i].Val = []byte{}
			}
		}
		return ops
	}
	issued = norm(issued)
	if ok, d := sameOps(norm(decodeAll(b)), issued); !ok {
		return violation("codec/seek", "buffer %q read with Seek: %s", b.Column, d)
	}
	for _, blk := range blocksOf(issued) {
		if ok, d := sameOps(norm(decodeBlock(b, blk)), opsOfBlock(issued, blk)); !ok {
			return violation("codec/range", "buffer %q block %d read with Range: %s", b.Column, blk, d)
		}
	}
	// a block the buffer never touched yields nothing
	if got := decodeBlock(b, 9); len(opsOfBlock(issued, 9)) == 0 && len(got) != 0 {
		return violation("codec/range", "buffer %q: Range over an untouched block yields %d operations", b.Column, len(got))
	}
	// Buffer.WriteTo / ReadFrom through the simulated disk
	f := NewSimFile()
	if _, err := b.WriteTo(f); err != nil {
		return violation("codec/buffer-writeto", "Buffer.WriteTo: %v", err)
	}
	back := commit.NewBuffer(0)
	maxChunk := []int{0, 1, 3, 17, 4096}[rng.Intn(5)]
	if maxChunk > 0 {
		w.stats.fault("read-chunking")
	}
	if _, err := back.ReadFrom(NewSimReader(f.Data, rng, maxChunk)); err != nil {
		return violation("codec/buffer-readfrom", "Buffer.ReadFrom of a complete buffer (%d bytes): %v", len(f.Data), err)
	}
	if back.Column != b.Column {
		return violation("codec/buffer-roundtrip", "column name %q read back as %q", b.Column, back.Column)
	}
	if ok, d := sameOps(norm(decodeAll(back)), issued); !ok {
		return violation("codec/buffer-roundtrip", "buffer %q after WriteTo/ReadFrom: %s", b.Column, d)
	}
	for _, blk := range blocksOf(issued) {
		if ok, d := sameOps(norm(decodeBlock(back, blk)), opsOfBlock(issued, blk)); !ok {
			return violation("codec/buffer-roundtrip", "buffer %q block %d after WriteTo/ReadFrom: %s", b.Column, blk, d)
		}
	}
	// Buffer.Clone
	if ok, d := sameOps(norm(decodeAll(b.Clone())), issued); !ok {
		return violation("codec/buffer-clone", "buffer %q after Clone: %s", b.Column, d)
	}
	return nil
}

// commitRoundTrip serializes a commit for one block and reads it back: every buffer must
// yield exactly that block's operations.
func (w *World) commitRoundTrip(c commit.Commit, issued map[string][]FOp, rng *Rng) *Violation {
	w.stats.Checks++
	f := NewSimFile()
	if _, err := c.WriteTo(f); err != nil {
		return violation("codec/commit-writeto", "Commit.WriteTo: %v", err)
	}
	var back commit.Commit
	if _, err := back.ReadFrom(NewSimReader(f.Data, rng, []int{0, 1, 5, 512}[rng.Intn(4)])); err != nil {
		return violation("codec/commit-readfrom", "Commit.ReadFrom of a complete commit (%d bytes): %v", len(f.Data), err)
	}
	if back.ID != c.ID || back.Chunk != c.Chunk {
		return violation("codec/commit-header", "commit (id %d, block %d) read back as (id %d, block %d)", c.ID, c.Chunk, back.ID, back.Chunk)
	}
	check := func(what string, ups []*commit.Buffer) *Violation {
		seen := map[string]bool{}
		for _, b := range ups {
			seen[b.Column] = true
			got := decodeBlock(b, uint32(c.Chunk))
			want := opsOfBlock(issued[b.Column], uint32(c.Chunk))
			for i := range got {
				if got[i].Val == nil {
					got[i].Val = []byte{}
				}
			}
			if ok, d := sameOps(got, want); !ok {
				return violation("codec/"+what, "commit (id %d, block %d) buffer %q after %s: %s", c.ID, c.Chunk, b.Column, what, d)
			}
		}
		for col, ops := range issued {
			if len(opsOfBlock(ops, uint32(c.Chunk))) > 0 && !seen[col] {
				return violation("codec/"+what, "commit (id %d, block %d) lost buffer %q after %s", c.ID, c.Chunk, col, what)
			}
		}
		return nil
	}
	if v := check("commit-roundtrip", back.Updates); v != nil {
		return v
	}
	cl := c.Clone()
	if cl.ID != c.ID || cl.Chunk != c.Chunk {
		return violation("codec/commit-clone", "clone of commit (id %d, block %d) carries (id %d, block %d)", c.ID, c.Chunk, cl.ID, cl.Chunk)
	}
	return check("commit-clone", cl.Updates)
}

// swapCheck replaces every merge delta of a block by a result through the reader's Swap
// calls and verifies what later readers see: per offset the same sequence with each
// merge turned into a put of the result.
func (w *World) swapCheck(b *commit.Buffer, k Kind, issued []FOp, rng *Rng) *Violation {
	w.stats.Checks++
	for _, blk := range blocksOf(issued) {
		want := map[uint32][]FOp{}
		r := commit.NewReader()
		i := 0
		blockOps := opsOfBlock(issued, blk)
		var appended []FOp // the puts this pass appended for its length-changing swaps, in order
		nextApp := 0
		var extra *Violation
		r.Range(b, commit.Chunk(blk), func(r *commit.Reader) {
			for r.Next() {
				if i >= len(blockOps) {
					// beyond the issued operations the pass may only meet the puts that its own
					// length-changing swaps appended (when the buffer ends in a run of this block they
					// are applied once more, harmlessly); anything else is not an operation of this block
					i++
					ok := false
					if nextApp < len(appended) {
						a := appended[nextApp]
						ok = r.Type == commit.Put && r.Index() == a.Off && string(r.Bytes()) == string(a.Val)
						nextApp++
					}
					if !ok && extra == nil {
						extra = violation("codec/swap-pass-extra", "buffer %q block %d: the pass that replaces merges by their results was handed {%s @%d %x} after the block's %d operations", b.Column, blk, r.Type, r.Index(), clipB(r.Bytes()), len(blockOps))
					}
					continue
				}
				o := blockOps[i]
				i++
				if r.Index() != o.Off && extra == nil {
					extra = violation("codec/swap-pass-offset", "buffer %q block %d: operation #%d was written at offset %d, the pass that replaces merges reads it at %d", b.Column, blk, i-1, o.Off, r.Index())
				}
				if r.Type != commit.Merge {
					want[o.Off] = append(want[o.Off], o)
					continue
				}
				var res []byte
				switch {
				case k.Numeric():
					res = make([]byte, len(o.Val))
					for j := range res {
						res[j] = byte(rng.Uint64())
					}
					switch len(res) {
					case 2:
						r.SwapUint16(uint16(res[0])<<8 | uint16(res[1]))
					case 4:
						r.SwapUint32(uint32(res[0])<<24 | uint32(res[1])<<16 | uint32(res[2])<<8 | uint32(res[3]))
					case 8:
						var u uint64
						for _, c := range res {
							u = u<<8 | uint64(c)
						}
						r.SwapUint64(u)
					}
				default:
					n := len(o.Val)
					later := false
					for _, lo := range blockOps[i:] {
						later = later || lo.Off == o.Off
					}
					pick := rng.Intn(3)
					if later && pick != 2 {
						// known finding: the result of a length-changing swap is appended after the
						// later operations of the same row
						if w.avoid["len-merge-put"] {
							pick = 2
						} else {
							w.noteTrigger("len-merge-put")
						}
					}
					switch pick {
					case 0:
						n += 1 + rng.Intn(20)
					case 1:
						if n > 0 {
							n -= 1 + rng.Intn(n)
						}
					}
					if n > 65535 {
						n = 65535 // values of 64 KiB and more are outside the buffer format's contract
					}
					res = make([]byte, n)
					for j := range res {
						res[j] = byte('A' + rng.Intn(26))
					}
					r.SwapBytes(res)
					if n != len(o.Val) {
						w.stats.probe("length-changing-swap")
						appended = append(appended, FOp{Type: commit.Put, Off: o.Off, Val: res})
					}
				}
				want[o.Off] = append(want[o.Off], FOp{Type: commit.Put, Off: o.Off, Val: res})
			}
		})
		if extra != nil {
			return extra
		}
		if i < len(blockOps) {
			return violation("codec/swap-pass-short", "buffer %q block %d: the pass that replaces merges saw %d of the block's %d operations", b.Column, blk, i, len(blockOps))
		}
		got := map[uint32][]FOp{}
		for _, o := range decodeBlock(b, blk) {
			if o.Type == commit.Skip {
				continue
			}
			if o.Val == nil {
				o.Val = []byte{}
			}
			got[o.Off] = append(got[o.Off], o)
		}
		var offs []uint32
		for o := range want {
			offs = append(offs, o)
		}
		sort.Slice(offs, func(i, j int) bool { return offs[i] < offs[j] })
		for _, off := range offs {
			if ok, d := sameOps(got[off], want[off]); !ok {
				return violation("codec/swap", "buffer %q block %d row %d after merges were replaced by their results: %s", b.Column, blk, off, d)
			}
		}
		for off := range got {
			if _, ok := want[off]; !ok {
				return violation("codec/swap", "buffer %q block %d: row %d appeared after merges were replaced", b.Column, blk, off)
			}
		}
	}
	return nil
}

// runCodec is the foreign-producer world of C05: a simulated peer builds commit buffers
// through the public Put* API from a seeded operation sequence, ships them as commits
// through a real commit.Log on the simulated disk to REPLICA-F, which replays them.
func runCodec(cs *Case) (w *World) {
	w = newWorld(cs)
	curWorld = w
	defer func() {
		curWorld = nil
		w.close()
		w.stats.Trace = uint64(hashInit.add(uint64(w.stats.Checks)).add(w.model.stateHash()))
	}()
	commit.SimSetID(5000)
	rng := NewRng(cs.Seed, uint64(cs.Run), 71)
	replica := w.newCollection(nil)
	vcols := []ColSpec{}
	for _, c := range w.model.Cols {
		if c.Kind != KKey {
			vcols = append(vcols, c)
		}
	}
	moves := func(last uint32) uint32 {
		switch rng.Intn(12) {
		case 0:
			return last
		case 1, 2, 3:
			return last + 1
		case 4:
			return last + uint32(rng.Range(2, 100))
		case 5:
			return last + uint32(rng.Range(128, 16383))
		case 6:
			return last + uint32(rng.Range(16384, 40000))
		case 7:
			return uint32(rng.Intn(4))<<14 + uint32(rng.Intn(1<<14))
		case 8:
			if last > 0 {
				return last - uint32(rng.Range(1, int(minU32(last, 20000))))
			}
			return 0
		case 9:
			return uint32(rng.Intn(200))
		case 10:
			return (last>>14)<<14 + 16383
		}
		return last + uint32(rng.Range(1, 5))
	}
	ntx := rng.Range(1, 4)
	logFile := &SimRW{SimFile: NewSimFile()}
	lg := commit.Open(logFile)
	var shipped []commit.Commit
	var shippedOps []map[string][]FOp
	id := uint64(7000)
	for t := 0; t < ntx && w.viol == nil; t++ {
		// 1. pure codec sequences (not applied anywhere): every kind x width x offset move
		for _, c := range vcols {
			buf := commit.NewBuffer(64)
			buf.Reset(c.Name)
			var issued []FOp
			last := uint32(0)
			n := rng.Range(1, 40)
			hasMerge := false
			for i := 0; i < n; i++ {
				off := moves(last) & (1<<18 - 1)
				last = off
				op := commit.Put
				switch rng.Intn(8) {
				case 0:
					op = commit.Delete
				case 1, 2:
					if c.Kind.Mergeable() {
						op = commit.Merge
						hasMerge = true
					}
				}
				v := (&gen{r: rng, p: seqProfile{}, av: avoid{enumCollision: true}}).genVal(c)
				issued = append(issued, fput(buf, c.Kind, op, off, v.M(c.Kind)))
			}
			if v := w.codecChecks(buf, issued, rng); v != nil {
				w.fail(v)
				return w
			}
			if hasMerge {
				// the same on a per-block clone of the buffer (what commit.Channel hands to consumers),
				// taken before the original is rewritten
				blks := blocksOf(issued)
				blk := blks[rng.Intn(len(blks))]
				cl := (&commit.Commit{ID: 1, Chunk: commit.Chunk(blk), Updates: []*commit.Buffer{buf}}).Clone()
				if v := w.swapCheck(buf, c.Kind, issued, rng); v != nil {
					w.fail(v)
					return w
				}
				if len(cl.Updates) == 1 {
					if v := w.swapCheck(cl.Updates[0], c.Kind, opsOfBlock(issued, blk), rng); v != nil {
						v.Detail = "on the per-block clone of the buffer: " + v.Detail
						w.fail(v)
						return w
					}
				}
			}
		}
		// 2. a foreign transaction: inserts at fresh offsets in any order, then stores
		mt := &MTxn{Thread: 9}
		rowBuf := commit.NewBuffer(64)
		rowBuf.Reset("row")
		issuedBy := map[string][]FOp{}
		var rows []uint32
		last := uint32(0)
		for i, n := 0, rng.Range(1, 12); i < n; i++ {
			off := moves(last) & (1<<16 - 1)
			last = off
			if _, live := w.model.Rows[off]; live {
				continue
			}
			dup := false
			for _, r := range rows {
				dup = dup || r == off
			}
			if dup {
				continue
			}
			rows = append(rows, off)
			issuedBy["row"] = append(issuedBy["row"], fput(rowBuf, "", commit.Insert, off, MVal{}))
			mt.add(MOp{Kind: mInsert, Off: off})
		}
		live := append(w.model.Live(), rows...)
		bufs := []*commit.Buffer{rowBuf}
		for _, c := range vcols {
			if rng.Chance(0.3) || len(live) == 0 {
				continue
			}
			buf := commit.NewBuffer(64)
			buf.Reset(c.Name)
			for i, n := 0, rng.Range(1, 10); i < n; i++ {
				off := live[rng.Intn(len(live))]
				v := (&gen{r: rng, p: seqProfile{}, av: avoid{enumCollision: true}}).genVal(c).M(c.Kind)
				if nk, ok := nums[c.Kind]; ok {
					v.U = nk.canon(v.U)
				}
				issuedBy[c.Name] = append(issuedBy[c.Name], fput(buf, c.Kind, commit.Put, off, v))
				mt.add(MOp{Kind: mPut, Off: off, Col: c.Name, Val: v})
			}
			bufs = append(bufs, buf)
		}
		for _, b := range bufs {
			if v := w.codecChecks(b, issuedBy[b.Column], rng); v != nil {
				w.fail(v)
				return w
			}
		}
		var all []FOp
		for _, ops := range issuedBy {
			all = append(all, ops...)
		}
		for _, blk := range blocksOf(all) {
			id++
			c := commit.Commit{ID: id, Chunk: commit.Chunk(blk), Updates: bufs}
			if v := w.commitRoundTrip(c, issuedBy, rng); v != nil {
				w.fail(v)
				return w
			}
			if err := lg.Append(c); err != nil {
				w.fail(violation("codec/log-append", "Log.Append: %v", err))
				return w
			}
			shipped = append(shipped, c)
			shippedOps = append(shippedOps, issuedBy)
		}
		w.model.Apply(mt)
		w.stats.Commits++
	}
	// 3. the log crosses the simulated disk and is replayed on REPLICA-F
	n := 0
	maxChunk := []int{0, 1, 9, 1000}[rng.Intn(4)]
	if maxChunk > 0 {
		w.stats.fault("read-chunking")
	}
	err := commit.Open(NewSimReader(logFile.Data, rng, maxChunk)).Range(func(c commit.Commit) error {
		if n >= len(shipped) {
			n++
			return nil
		}
		want := shipped[n]
		if c.ID != want.ID || c.Chunk != want.Chunk {
			w.fail(violation("codec/log-roundtrip", "commit #%d read back from the log as (id %d, block %d), appended as (id %d, block %d)", n, c.ID, c.Chunk, want.ID, want.Chunk))
		}
		for _, b := range c.Updates {
			got := decodeBlock(b, uint32(c.Chunk))
			for i := range got {
				if got[i].Val == nil {
					got[i].Val = []byte{}
				}
			}
			if ok, d := sameOps(got, opsOfBlock(shippedOps[n][b.Column], uint32(c.Chunk))); !ok && w.viol == nil {
				w.fail(violation("codec/log-roundtrip", "commit #%d (id %d, block %d) buffer %q read back from the log: %s", n, c.ID, c.Chunk, b.Column, d))
			}
		}
		n++
		return replica.Replay(c)
	})
	if w.viol != nil {
		return w
	}
	if err != nil || n != len(shipped) {
		w.fail(violation("codec/log-range", "Log.Range over the complete log delivered %d of %d commits, err=%v", n, len(shipped), err))
		return w
	}
	w.stats.Dumps++
	if v := CompareDump(replica, w.model, nil, nil); v != nil {
		v.Sig = "foreign-replica/" + v.Sig
		v.Detail = "REPLICA-F after replaying the foreign producer's commits: " + v.Detail
		w.fail(v)
	}
	w.stats.EndState = w.model.stateHash()
	w.stats.Nontrivial = len(shipped) > 0
	return w
}
