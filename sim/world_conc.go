package colsim

import (
	"fmt"
	"runtime"
	"runtime/debug"
	"sort"

	"github.com/kelindar/column"
	"github.com/kelindar/column/commit"
	"github.com/kelindar/smutex"
)

// concOracles selects the oracles of a concurrent world.
type concOracles struct {
	replicas  bool   // C06: channel replica + log replica must equal the primary at quiescence
	stream    bool   // C15/C05: exactly-once, ids, per-block order, decoded ops == issued ops
	snapshots bool   // C08: snapshots under commits restore to a consistent cut
	phantom   bool   // C02: in-flight inserts must not be visible to other readers
	log       bool   // the primary's commits are also serialized to a commit.Log on a SimFile
	truncate  [2]int // C13: enumerate truncation points (every byte below [0], else [1] samples); [0]==0 = off
	snapfault bool   // C14 part B: the snapshotter writes to a SimFile with a fault plan (Case.Faults)
}

// blockCommit is one (transaction, block) application in latch order.
type blockCommit struct {
	mt                 *MTxn
	block              uint32
	seq                uint64
	done               bool // the write latch was released (AfterUnlock reached)
	startStep, endStep int  // scheduler steps at which the block latch was taken / released
}

// snapRec is one snapshot taken by the snapshotter thread.
type snapRec struct {
	file     *SimFile
	err      error
	base     *Model         // committed model state when Snapshot was invoked
	ack      map[uint32]int // per block: commits acknowledged (latch released) at invocation
	stateLen int            // bytes written when the recorder was closed (state part)
	applied0 map[uint32]int // per block: commits applied at invocation
	applied1 map[uint32]int // per block: commits applied when Snapshot returned
	panicked any
}

type concState struct {
	or           concOracles
	stable       []uint32
	own          map[int][]uint32 // rows inserted (and committed) by each thread, still live
	perBlock     map[uint32][]*blockCommit
	cur          map[int]map[uint32]*blockCommit // thread -> block -> entry being committed
	holding      map[int]map[uint32]bool         // thread -> blocks whose write latch it took for a commit and has not released yet
	latchStep    map[int]map[uint32]int          // thread -> block -> scheduler step at which it was released to take the write latch
	recorderFile *SimFile                        // destination of that call
	recorderBy   int                             // 1 + id of the thread whose Snapshot call has its recorder installed (0 = none)
	relay        *chunkCounter                   // C06: logger of the channel replica
	snapBlock    int                             // block the snapshotter thread is reading (-1 = none)
	snaps        []*snapRec
	// replicas
	ch          commit.Channel
	queue       []int // deliverAt step per commit in the channel, FIFO
	replicaC    *column.Collection
	logFile     *SimRW
	log         *commit.Log
	logOrder    *orderedLog // (C13) the order in which the log took the commits, and what it answered
	writersLeft int
	applied     int
	setupSnap   []byte
	fd0         int            // open descriptors before the threads start (C14 part B)
	trigs       []*concTrigger // triggers created by the schema thread (C19 part B)
	setupModel  *Model
	// stream bookkeeping
	committedBlocks map[*MTxn]map[uint32]bool
	emitted         map[*MTxn]map[uint32]int
	txnOf           map[int]*MTxn
}

// chunkCounter is a commit.Logger that counts commits per block.
type chunkCounter struct {
	perChunk, setup map[uint32]int
}

func (c *chunkCounter) Append(cm commit.Commit) error {
	c.perChunk[uint32(cm.Chunk)]++
	return nil
}

// SimRW is a SimFile that can also be read back (commit.Open needs a reader; a log opened
// over a reader that is also a writer gets its write side).
type SimRW struct {
	*SimFile
	rpos int
}

func (f *SimRW) Read(p []byte) (int, error) {
	if f.rpos >= len(f.Data) {
		return 0, fmt.Errorf("EOF")
	}
	n := copy(p, f.Data[f.rpos:])
	f.rpos += n
	return n, nil
}

// runConc executes a concurrent case.
func runConc(cs *Case, or concOracles) (w *World) {
	w = newWorld(cs)
	curWorld = w
	st := &concState{or: or, own: map[int][]uint32{}, perBlock: map[uint32][]*blockCommit{}, cur: map[int]map[uint32]*blockCommit{}, holding: map[int]map[uint32]bool{},
		committedBlocks: map[*MTxn]map[uint32]bool{}, emitted: map[*MTxn]map[uint32]int{}, txnOf: map[int]*MTxn{}}
	w.conc = st
	defer func() {
		curWorld = nil
		w.close()
		if w.sim != nil {
			w.stats.Steps = w.sim.steps
			w.stats.Choices = w.sim.choices
			w.stats.Ilv = uint64(w.sim.ilv)
			w.stats.Trace = uint64(w.sim.trace.add(w.model.stateHash()).add(uint64(len(w.tap.Commits))))
			for k, n := range w.sim.faults {
				for i := 0; i < n; i++ {
					w.stats.fault(k)
				}
			}
			w.stats.Hooks = map[string]int{}
			for k, n := range w.sim.hits {
				if n > 0 {
					w.stats.Hooks[pointName[uint8(k)]] += n
				}
			}
		}
	}()
	commit.SimSetID(1000)
	w.tap = &Tap{w: w}
	w.primary = w.newCollection(w.tap)
	w.prefill(w.primary, cs.Cfg.Prefill)
	prefillModel(w.model, cs.Cfg.Prefill)

	// setup transactions (stable rows with initial values) run on the scheduler goroutine
	for i := range cs.Steps {
		if cs.Steps[i].Kind == "txn" {
			w.runTxn(cs.Steps[i].Txn, true)
		}
	}
	st.stable = w.model.Live()
	if cs.Cfg.Params["shared_keys"] == 1 {
		w.noteTrigger("concurrent-key-insert")
	}
	st.setupModel = w.model.Clone()
	w.hookFn = w.concHook
	w.readyFn = func(c *column.Collection, p uint8, arg uint32) func() bool {
		// known finding "reserved offsets are visible to Snapshot": unless this run explores
		// it, the snapshotter reads a block only while no insert is reserved in it
		if c == w.primary && p == uint8(column.SimBeforeRLock) && w.sim.cur != nil && w.sim.cur.role == "snapshot" && w.avoid["snapshot-reserved"] {
			return func() bool { return !w.reservedIn(arg) }
		}
		return nil
	}
	if v := CompareDump(w.primary, w.model, cs.Cfg.KeyAlpha, nil); v != nil {
		v.Detail = "after set-up: " + v.Detail
		w.fail(v)
		return w
	}
	w.tap.Commits = nil
	w.tap.failAt, w.tap.failOnce = cs.Cfg.Params["stream_fail_at"], cs.Cfg.Params["stream_fail_once"] == 1

	if or.replicas {
		st.ch = make(commit.Channel, 1<<14)
		// the replica has a change stream of its own (a relay in a replication chain): every
		// replayed commit is a committed transaction on it and must be emitted once
		st.relay = &chunkCounter{perChunk: map[uint32]int{}}
		st.replicaC = w.newCollection(st.relay)
		st.logFile = &SimRW{SimFile: NewSimFile()}
		st.log = commit.Open(st.logFile)
		w.tap.Sinks = []commit.Logger{st.ch, st.log}
		// replicas start from the same populated state
		w.copyState(st.replicaC)
		st.relay.setup = map[uint32]int{}
		for b, n := range st.relay.perChunk {
			st.relay.setup[b] = n // what restoring the set-up state emitted
		}
	}
	if or.log && st.log == nil {
		st.logFile = &SimRW{SimFile: NewSimFile()}
		if k, n := cs.Cfg.Params["log_fault_call"], cs.Cfg.Params["log_fault_byte"]; k > 0 || n > 0 {
			st.logFile.Plan = WritePlan{FailAtCall: k, FailAtByte: -1, Once: cs.Cfg.Params["log_fault_once"] == 1}
			if n > 0 {
				st.logFile.Plan.FailAtByte = n
			}
		}
		st.log = commit.Open(st.logFile)
		st.logOrder = &orderedLog{lg: st.log}
		w.tap.Sinks = append(w.tap.Sinks, st.logOrder)
	}
	w.tap.onAppend = func(tc *TapCommit, c commit.Commit) { w.onEmit(tc, c) }

	if or.snapfault {
		old := debug.SetGCPercent(-1) // finalizers must not hide a descriptor leak
		defer debug.SetGCPercent(old)
		runtime.GC()
		st.fd0 = fdCount()
	}
	w.sim = NewSim(NewRng(cs.SchedSeed, 3), cs.Strategy, cs.Sched)
	if cs.Sched == nil {
		w.sim.replay = nil
	}
	w.sim.AddStalls(cs.Faults)
	w.mergeYields = cs.Cfg.Prefill == nil || len(cs.Cfg.Prefill.KeepFull) == 0
	w.capFor = map[int]*filterCapture{}
	w.aggWatch = map[int]*aggWatch{}
	for _, k := range cs.Muted {
		if k > 0 && k < int(ptMax) {
			w.sim.muted[k] = true
		}
	}
	for ti := range cs.Threads {
		tp := &cs.Threads[ti]
		switch tp.Role {
		case "writer", "reader":
			if tp.Role == "writer" {
				st.writersLeft++
			}
			w.sim.GoRole(tp.Role, fmt.Sprintf("%s%d", tp.Role, ti), func(t *Thread) {
				for xi := range tp.Txns {
					if w.stopped() {
						break
					}
					w.runConcTxn(t, &tp.Txns[xi])
					w.sim.Yield(ptTxnEdge)
				}
				if tp.Role == "writer" {
					st.writersLeft--
				}
			})
		case "snapshot":
			st.writersLeft++
			w.sim.GoRole("snapshot", fmt.Sprintf("snapshot%d", ti), func(t *Thread) {
				for k := 0; k < tp.Arg; k++ {
					w.sim.Yield(ptTxnEdge)
				}
				n := len(tp.Txns)
				if n == 0 {
					n = 1
				}
				for k := 0; k < n && !w.stopped(); k++ {
					w.takeSnapshot(tp.Healthy)
					w.sim.Yield(ptTxnEdge)
				}
				st.writersLeft--
			})
		case "indexer":
			st.writersLeft++
			w.sim.Go(fmt.Sprintf("indexer%d", ti), func(t *Thread) {
				for xi := range tp.Txns {
					for oi := range tp.Txns[xi].Ops {
						op := &tp.Txns[xi].Ops[oi]
						if w.stopped() {
							continue
						}
						for _, ot := range w.sim.threads {
							if !ot.done && (ot.pt.Kind == ptInMerge || ot.pt.Kind == ptMuLock && len(st.holding[ot.ID]) > 0) && (op.Kind == "mkindex" || op.Kind == "mksort") {
								w.stats.probe("index-built-while-a-commit-is-inside-apply")
							}
						}
						switch op.Kind {
						case "dropghost":
							if w.ghostLive {
								w.primary.DropColumn("ghost")
								w.ghostLive = false
								for _, mt := range w.txns {
									if mt != nil && mt.ghost {
										w.stats.probe("column-dropped-while-a-transaction-holds-stores-to-it")
									}
								}
							}
							w.sim.Yield(ptTxnEdge)
							continue
						case "mkghost":
							if !w.ghostLive {
								if err := w.primary.CreateColumn("ghost", column.ForInt64()); err != nil {
									w.fail(violation("schema", "CreateColumn(ghost): %v", err))
									return
								}
								w.ghostLive = true
							}
							w.sim.Yield(ptTxnEdge)
							continue
						case "mksort":
							if _, ok := w.model.Col(op.Sort.Col); ok {
								if err := w.primary.CreateSortIndex(op.Sort.Name, op.Sort.Col); err != nil {
									w.fail(violation("schema", "CreateSortIndex(%q): %v", op.Sort.Name, err))
									return
								}
								w.model.Sorts = append(w.model.Sorts, *op.Sort)
								w.stats.probe("sort-index-built-beside-writers")
								w.sim.Yield(ptTxnEdge)
							}
							continue
						case "mktrigger":
							w.createConcTrigger(op.Name, op.Col)
							w.sim.Yield(ptTxnEdge)
							continue
						case "droptrigger":
							w.dropConcTrigger(op.Name)
							w.sim.Yield(ptTxnEdge)
							continue
						}
						if op.Index == nil {
							continue
						}
						if _, ok := w.model.Col(op.Index.Col); !ok {
							continue
						}
						if err := w.primary.CreateIndex(op.Index.Name, op.Index.Col, op.Index.Pred.rule()); err != nil {
							w.fail(violation("schema", "CreateIndex(%q): %v", op.Index.Name, err))
							return
						}
						// from now on the index is part of the observable state
						w.model.Indexes = append(w.model.Indexes, *op.Index)
						w.stats.probe("index-built-beside-writers")
						w.sim.Yield(ptTxnEdge)
					}
				}
				st.writersLeft--
			})
		case "applier":
			w.sim.Go(fmt.Sprintf("applier%d", ti), func(t *Thread) { w.applierLoop() })
		default:
			panic("unknown role " + tp.Role)
		}
	}
	st.snapBlock = -1
	w.sim.onPick = func(t *Thread, enabled int) {
		if t.role == "snapshot" && t.pt.Kind == uint8(column.SimBeforeRLock) && t.pt.Coll == w.primary && w.reservedIn(t.pt.Arg) {
			w.noteTrigger("snapshot-reserved")
			w.stats.probe("snapshot-reads-block-with-reserved-insert")
		}
		if t.role == "snapshot" && t.pt.Kind == ptMuLock && st.snapBlock >= 0 && w.reservedIn(uint32(st.snapBlock)) {
			// instrumented build: the snapshotter waited in front of the fill-list lock with the
			// block's read latch already taken, and an insert reserved an offset meanwhile
			w.noteTrigger("snapshot-reserved")
			w.stats.probe("snapshot-reads-block-with-reserved-insert")
		}
	}
	err := w.sim.Run()
	switch e := err.(type) {
	case nil:
	case *PanicError:
		w.taint = true
		w.fail(violation("panic/"+e.At, "%v", e))
	case *DeadlockError:
		w.taint = true
		failedSnap := false
		for _, s := range st.snaps {
			failedSnap = failedSnap || s.err != nil
		}
		switch {
		case cs.Prop == "C18":
			w.fail(violation("deadlock", "%v", e))
		case or.snapfault && failedSnap:
			w.fail(violation("after-failed-snapshot/deadlock", "after a failed Snapshot no thread can proceed (a latch was left held): %v", e))
		default:
			w.incon = "deadlock"
		}
	case *HangError:
		w.taint = true
		if cs.Prop == "C18" && e.InLock {
			w.fail(violation("hang-in-lock", "%v", e))
		} else {
			w.incon = "hang"
		}
	}
	if w.viol != nil || w.incon != "" {
		return w
	}
	if w.sim.drain {
		w.incon = "step-cap"
		return w
	}
	w.sim.cur = nil
	w.quiescentChecks()
	w.stats.EndState = w.model.stateHash()
	w.stats.Nontrivial = w.stats.Commits > 0 && w.sim.choices > 0
	return w
}

// copyState brings a fresh collection to the primary's committed state by replaying a
// snapshot (set-up only, before any simulated thread runs).
func (w *World) copyState(dst *column.Collection) {
	f := NewSimFile()
	if err := w.primary.Snapshot(f); err != nil {
		panic(err)
	}
	w.conc.setupSnap = f.Data
	if err := dst.Restore(NewSimReader(f.Data, nil, 0)); err != nil {
		panic(err)
	}
}

// runConcTxn runs one transaction of a simulated client thread.
func (w *World) runConcTxn(t *Thread, prog *TxnProg) {
	st := w.conc
	tid := t.ID
	mt := &MTxn{Thread: tid, Failed: map[uint32]bool{}}
	w.txns[tid] = mt
	st.txnOf[tid] = mt
	w.stats.Txns++
	x := &txnCtx{w: w, c: w.primary, mt: mt, checkReads: true, exact: false, thread: tid, abort: prog.Abort}
	err := queryRecover(w.primary, func(txn *column.Txn) error {
		x.txn = txn
		for i := range prog.Ops {
			if w.stopped() {
				return errStop
			}
			x.execOp(&prog.Ops[i])
			w.stats.Ops++
			w.sim.Yield(ptBetween)
		}
		if w.stopped() {
			return errStop
		}
		if prog.Abort && prog.Panic && w.viol == nil {
			w.stats.fault("client-panic-in-transaction")
			panic(errClientPanic)
		}
		if prog.Abort {
			return errAbort
		}
		return nil
	})
	delete(w.txns, tid)
	if x.ttlPending {
		w.ttl.pendingTTL--
	}
	if w.viol != nil {
		return
	}
	switch {
	case err == nil:
		w.stats.Commits++
		if len(mt.Failed) > 0 {
			w.noteTrigger("fail-in-commit")
		}
		for _, b := range mt.Blocks() {
			if !mt.applied[b] {
				// the commit path never reached MidCommit1 for a block the transaction changed
				w.fail(violation("commit-skipped-block", "Query returned nil but block %d of the transaction was never committed", b))
				return
			}
		}
		w.model.Apply(mt)
		// thread-private rows
		for _, o := range mt.Ops {
			switch {
			case o.Kind == mInsert && !o.Dead:
				st.own[tid] = append(st.own[tid], o.Off)
			case o.Kind == mDelete:
				for i, v := range st.own[tid] {
					if v == o.Off {
						st.own[tid] = append(st.own[tid][:i:i], st.own[tid][i+1:]...)
						break
					}
				}
			}
		}
		if st.or.stream {
			w.checkEmitted(mt)
		}
	case err == errAbort || err == errStop:
		w.stats.Aborts++
		w.noteRollbackInsert(mt)
		w.model.Abort(mt)
		if st.or.stream && len(st.emitted[mt]) > 0 {
			w.fail(violation("stream/emitted-on-rollback", "a rolled-back transaction of thread %d emitted commits", tid))
		}
	default:
		w.fail(violation("query-result", "Query returned unexpected error %v", err))
	}
}

// concHook is the per-world bookkeeping at repo hooks (runs before the scheduling decision).
func (w *World) concHook(c *column.Collection, latch *smutex.SMutex128, p uint8, arg uint32) {
	st := w.conc
	if st == nil || c != w.primary || w.sim == nil || w.sim.cur == nil {
		return
	}
	tid := w.tid()
	switch p {
	case uint8(column.SimMidCommit1):
		mt := w.txns[tid]
		if mt == nil {
			if w.ttl != nil && w.sim.cur.foreign {
				w.ttl.vCommitting[arg] = true // the cleanup applied its delete markers to this block
			}
			return
		}
		w.seq++
		bc := &blockCommit{mt: mt, block: arg, seq: w.seq, startStep: w.sim.steps, endStep: -1}
		if at, ok := st.latchStep[tid][arg]; ok {
			bc.startStep = at // row deletes reach the columns (and triggers) before this hook
		}
		st.perBlock[arg] = append(st.perBlock[arg], bc)
		if st.cur[tid] == nil {
			st.cur[tid] = map[uint32]*blockCommit{}
		}
		st.cur[tid][arg] = bc
		// rare-condition probes
		if _, wr := latchState(latch, arg); !wr {
			w.fail(violation("latch/not-held-in-commit", "thread %d applies block %d without holding its write latch", tid, arg))
		}
	case uint8(column.SimAfterUnlock):
		delete(st.holding[tid], arg)
		if w.ttl != nil && w.sim.cur.foreign {
			delete(w.ttl.vCommitting, arg)
		}
		if bc := st.cur[tid][arg]; bc != nil {
			bc.done = true
			bc.endStep = w.sim.steps
			delete(st.cur[tid], arg)
			if w.ttl != nil {
				w.noteExpired()
				// the deadlines this commit stored are visible from now on
				for _, o := range bc.mt.Ops {
					if o.Off>>14 == arg && o.Kind == mDelete && w.ttl.inPass {
						w.noteTrigger("ttl-change-during-pass") // the offset can get a new occupant during the pass
					}
					if o.Off>>14 == arg && (o.Col == "expire" || o.Kind == mInsert) {
						w.seq++
						w.ttl.deadlineSeq[o.Off] = w.seq
						if w.ttl.inPass {
							// a deadline or a new occupant of an offset committed while a pass is in progress
							w.noteTrigger("ttl-change-during-pass")
							w.stats.probe("ttl-committed-during-cleanup-pass")
						}
					}
				}
			}
		}
	case uint8(column.SimBeforeLock):
		// probe: another thread is parked between id draw and latch on the same block
		for _, t := range w.sim.threads {
			if t != w.sim.cur && !t.done && t.pt.Kind == uint8(column.SimBeforeLock) && t.pt.Arg == arg && t.pt.Coll == c {
				w.stats.probe("two-writers-between-id-and-latch")
			}
		}
	case uint8(column.SimSnapshotPhase):
		if arg == 3 && st.recorderBy == tid+1 {
			st.recorderBy = 0 // the recorder was detached just before this hook
		}
		st.snapBlock = -1
		w.stats.probe(fmt.Sprintf("snapshot-phase-%d", arg))
		if arg == 3 && len(st.snaps) > 0 {
			s := st.snaps[len(st.snaps)-1]
			s.stateLen = len(s.file.Data)
		}
	case uint8(column.SimBeforeRLock):
		if w.sim.cur.role == "snapshot" {
			st.snapBlock = int(arg) // the block the snapshot is about to read
		}
		// a muted hook does not park: the block is read right now
		if w.sim.cur.role == "snapshot" && w.sim.muted[p] && w.readyFn(c, p, arg) == nil && w.reservedIn(arg) {
			w.noteTrigger("snapshot-reserved")
			w.stats.probe("snapshot-reads-block-with-reserved-insert")
		}
	}
}

// quiescentChecks runs once every simulated thread has finished.
func (w *World) quiescentChecks() {
	st := w.conc
	cs := w.cs
	w.stats.Dumps++
	if v := CompareDump(w.primary, w.model, cs.Cfg.KeyAlpha, nil); v != nil {
		v.Detail = "primary at quiescence: " + v.Detail
		w.fail(v)
		return
	}
	if st.or.stream {
		if v := w.checkStream(); v != nil {
			w.fail(v)
			return
		}
	}
	if st.or.replicas {
		if len(st.queue) != 0 || len(st.ch) != 0 {
			w.fail(violation("replica/not-drained", "%d commits were still queued for the channel replica after all writers and the applier finished", len(st.ch)))
			return
		}
		w.stats.Dumps++
		if v := CompareDump(st.replicaC, w.model, cs.Cfg.KeyAlpha, nil); v != nil {
			v.Sig = "replica-channel/" + v.Sig
			v.Detail = fmt.Sprintf("replica fed through commit.Channel (%d commits) differs from the quiescent primary: %s", st.applied, v.Detail)
			w.fail(v)
			return
		}
		emittedBy := map[uint32]int{}
		for _, tc := range w.tap.Commits {
			emittedBy[tc.Chunk]++
		}
		for b, n := range emittedBy {
			if got := st.relay.perChunk[b] - st.relay.setup[b]; got != n {
				w.fail(violation("replica-channel/relay-stream", "the primary emitted %d commits for block %d and all were replayed on the replica, whose own change stream carries %d for that block", n, b, got))
				return
			}
		}
		// replay the serialized log into a third collection
		repL := w.newCollection(nil)
		w.copyStateFromSetup(repL)
		rng := NewRng(cs.Seed, uint64(cs.Run), 41)
		maxChunk := []int{0, 1, 13, 4096}[rng.Intn(4)]
		n := 0
		err := commit.Open(NewSimReader(st.logFile.Data, rng, maxChunk)).Range(func(c commit.Commit) error {
			n++
			return repL.Replay(c)
		})
		if err != nil {
			w.fail(violation("replica-log/range-error", "Log.Range over the complete log (%d bytes) returned %v after %d commits", len(st.logFile.Data), err, n))
			return
		}
		if n != len(w.tap.Commits) {
			w.fail(violation("replica-log/commit-count", "the log delivered %d commits, %d were appended", n, len(w.tap.Commits)))
			return
		}
		w.stats.Dumps++
		if v := CompareDump(repL, w.model, cs.Cfg.KeyAlpha, nil); v != nil {
			v.Sig = "replica-log/" + v.Sig
			v.Detail = fmt.Sprintf("replica fed from the serialized log (%d commits) differs from the quiescent primary: %s", n, v.Detail)
			w.fail(v)
			return
		}
	}
	for _, sx := range w.model.Sorts {
		if v := checkAscendAll(w.primary, w.model, sx); v != nil {
			w.fail(v)
			return
		}
	}
	if v := w.checkConcTriggers(); v != nil {
		w.fail(v)
		return
	}
	if st.or.snapfault {
		w.snapfaultQuiescent()
		if w.viol != nil {
			return
		}
	}
	if st.or.truncate[0] > 0 {
		w.truncationChecks(st.or.truncate[0], st.or.truncate[1])
		if w.viol != nil {
			return
		}
	}
	if st.or.snapshots || (st.or.snapfault && !w.triggered["snapshot-reserved"]) {
		for i, s := range st.snaps {
			if v := w.checkSnapshot(i, s); v != nil {
				w.fail(v)
				return
			}
		}
	}
}

// setupSnapshot holds the snapshot of the state after set-up (replicas start from it).
func (w *World) copyStateFromSetup(dst *column.Collection) {
	if err := dst.Restore(NewSimReader(w.conc.setupSnap, nil, 0)); err != nil {
		panic(err)
	}
}

// ---------------------------------------------------------------------------------
// replication

func (w *World) onEmit(tc *TapCommit, c commit.Commit) {
	st := w.conc
	if st == nil {
		return
	}
	if st.or.replicas && w.sim != nil {
		delay := 0
		if d := w.cs.Cfg.Params["link_delay"]; d > 0 {
			delay = NewRng(w.cs.SchedSeed, tc.Seq, 5).Intn(d + 1)
		}
		st.queue = append(st.queue, w.sim.steps+delay)
	}
	if st.or.stream && w.viol == nil {
		// what a consumer of commit.Channel receives: the clone must carry its own block and
		// nothing else (Replay marks every block it finds in the buffers as changed)
		cl := c.Clone()
		if cl.ID != c.ID || cl.Chunk != c.Chunk {
			w.fail(violation("stream/clone-header", "%s: its clone carries (id %d, block %d)", tc, cl.ID, cl.Chunk))
		}
		for _, b := range cl.Updates {
			b.RangeChunks(func(ch commit.Chunk) {
				if ch != c.Chunk && w.viol == nil {
					w.fail(violation("stream/clone-carries-other-block", "%s: buffer %q of its clone (what commit.Channel delivers) also carries operations of block %d", tc, b.Column, ch))
				}
			})
		}
		w.stats.Checks++
	}
	if mt := st.txnOf[tc.Thread]; mt != nil && w.txns[tc.Thread] == mt {
		if st.emitted[mt] == nil {
			st.emitted[mt] = map[uint32]int{}
		}
		st.emitted[mt][tc.Chunk]++
		tc.mt = mt
		if st.or.stream && w.viol == nil {
			w.stats.Checks++
			w.fail(w.checkDecoded(tc, mt, mt.changes[tc.Chunk]))
		}
	}
}

func (w *World) applierLoop() {
	st := w.conc
	for {
		w.sim.WaitUntil(ptLinkWait, func() bool {
			if len(st.queue) > 0 {
				return w.sim.steps >= st.queue[0] || st.writersLeft == 0
			}
			return st.writersLeft == 0
		})
		if len(st.queue) == 0 {
			if st.writersLeft == 0 {
				return
			}
			continue
		}
		if w.sim.steps < st.queue[0] {
			w.stats.fault("link-delay-cut-short")
		} else if st.queue[0] > 0 {
			w.stats.fault("link-delay")
		}
		st.queue = st.queue[1:]
		c := <-st.ch
		if err := st.replicaC.Replay(c); err != nil {
			w.fail(violation("replica-channel/replay-error", "Replay returned %v", err))
			return
		}
		st.applied++
	}
}

// ---------------------------------------------------------------------------------
// C15 / C05: the change stream

// checkEmitted runs when a transaction has been acknowledged: exactly one commit per block
// it changed, and the decoded operations equal what it issued (merges as puts of the result).
func (w *World) checkEmitted(mt *MTxn) {
	st := w.conc
	changed := map[uint32]bool{}
	for _, o := range mt.Ops {
		if o.Dead {
			continue
		}
		changed[o.Off>>14] = true
	}
	for b := range mt.ghostOnly {
		if !changed[b] && mt.ghostAtApply[b] {
			changed[b] = true // the only store of the block went into a column that existed at commit time
			w.stats.probe("commit-of-a-block-changed-in-the-unmodelled-column-only")
		} else if !changed[b] {
			w.stats.probe("transaction-changed-nothing-its-column-was-dropped")
		}
	}
	em := st.emitted[mt]
	var blocks []uint32
	for b := range changed {
		blocks = append(blocks, b)
	}
	for b := range em {
		if !changed[b] {
			blocks = append(blocks, b)
		}
	}
	sort.Slice(blocks, func(i, j int) bool { return blocks[i] < blocks[j] })
	for _, b := range blocks {
		switch {
		case changed[b] && em[b] == 0:
			w.fail(violation("stream/missing-commit", "thread %d committed changes to block %d but no commit was emitted for it", mt.Thread, b))
			return
		case em[b] > 1:
			w.fail(violation("stream/duplicate-commit", "thread %d: %d commits emitted for block %d by one transaction", mt.Thread, em[b], b))
			return
		case !changed[b] && em[b] > 0:
			w.fail(violation("stream/commit-for-unchanged-block", "thread %d: a commit was emitted for block %d which the transaction did not change", mt.Thread, b))
			return
		}
	}
}

// checkStream validates ids and per-block order over the whole run.
func (w *World) checkStream() *Violation {
	ids := map[uint64]*TapCommit{}
	last := map[uint32]*TapCommit{}
	for _, tc := range w.tap.Commits {
		if tc.ID == 0 {
			return violation("stream/zero-id", "%s carries ID 0", tc)
		}
		if prev, dup := ids[tc.ID]; dup {
			return violation("stream/duplicate-id", "%s and %s carry the same ID", prev, tc)
		}
		ids[tc.ID] = tc
		if prev := last[tc.Chunk]; prev != nil && prev.ID >= tc.ID {
			return violation("stream/id-order", "block %d: %s reached the logger after %s but its ID is not greater", tc.Chunk, tc, prev)
		}
		last[tc.Chunk] = tc
	}
	// emission order per block equals the order in which the commits were applied
	perBlock := map[uint32][]*TapCommit{}
	for _, tc := range w.tap.Commits {
		perBlock[tc.Chunk] = append(perBlock[tc.Chunk], tc)
	}
	for b, list := range w.conc.perBlock {
		var applied []*MTxn
		for _, bc := range list {
			if len(w.conc.emitted[bc.mt]) > 0 && w.conc.emitted[bc.mt][b] > 0 {
				applied = append(applied, bc.mt)
			}
		}
		em := perBlock[b]
		for i := range em {
			if i < len(applied) && em[i].mt != nil && em[i].mt != applied[i] {
				return violation("stream/emit-order", "block %d: commit #%d reached the logger from thread %d but the #%d-th applied transaction was thread %d's", b, i, em[i].Thread, i, applied[i].Thread)
			}
		}
	}
	return nil
}

// latchTaken is called when a committing thread is released from the hook before its
// block write latch: from now until AfterUnlock it holds that latch. Inside that window the
// library updates the fill list and the key table (both readable without the latch) before
// and after the MidCommit1 hook at which the model applies the block.
func (w *World) latchTaken(tid int, block uint32) {
	st := w.conc
	if st.holding == nil {
		st.holding = map[int]map[uint32]bool{}
	}
	if st.holding[tid] == nil {
		st.holding[tid] = map[uint32]bool{}
	}
	st.holding[tid][block] = true
	if st.latchStep == nil {
		st.latchStep = map[int]map[uint32]int{}
	}
	if st.latchStep[tid] == nil {
		st.latchStep[tid] = map[uint32]int{}
	}
	st.latchStep[tid][block] = w.sim.steps
}

// deleteInFlight reports whether another thread holds the write latch of off's block for a
// commit that deletes row off and has not been applied to the model yet: the library clears
// the fill bit first thing under the latch, so the offset may be handed out again while the
// model still shows the row (the new occupant cannot touch the block before the latch is
// released, which is after the model caught up).
func (w *World) deleteInFlight(off uint32) bool {
	st := w.conc
	if st == nil {
		return false
	}
	for tid, blocks := range st.holding {
		if tid == w.tid() || !blocks[off>>14] {
			continue
		}
		mt := w.txns[tid]
		if mt == nil || mt.applied[off>>14] {
			continue
		}
		for _, o := range mt.Ops {
			if o.Kind == mDelete && o.Off == off {
				return true
			}
		}
	}
	return false
}

func (w *World) reservedIn(block uint32) bool {
	for o := range w.model.Reserved {
		if o>>14 == block {
			return true
		}
	}
	return false
}
