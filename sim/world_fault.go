package colsim

import (
	"bytes"
	"fmt"
	"os"
	"runtime"
	"runtime/debug"
	"sort"
	"time"

	"github.com/kelindar/column"
	"github.com/kelindar/column/commit"
	"github.com/kelindar/iostream"
	"github.com/klauspost/compress/s2"
)

// guarded runs fn with panic capture and a wall-clock watchdog (a hang in library code on
// a truncated stream is a violation of C13; the goroutine is abandoned and the worker is
// restarted by the driver).
func guarded(limit time.Duration, fn func() error) (err error, panicked any, frame string, hung bool) {
	type res struct {
		err   error
		p     any
		frame string
	}
	ch := make(chan res, 1)
	go func() {
		var r res
		defer func() {
			if p := recover(); p != nil {
				r.p = p
				r.frame = panicFrame()
			}
			ch <- r
		}()
		r.err = fn()
	}()
	timer := time.NewTimer(limit)
	defer timer.Stop()
	select {
	case r := <-ch:
		return r.err, r.p, r.frame, false
	case <-timer.C:
		return nil, nil, "", true
	}
}

// rowsKey renders a row map canonically (for membership in {D_0..D_n}).
func rowsKey(cols []ColSpec, rows map[uint32]map[string]MVal) string {
	var offs []uint32
	for o := range rows {
		offs = append(offs, o)
	}
	sort.Slice(offs, func(i, j int) bool { return offs[i] < offs[j] })
	h := hashInit
	for _, o := range offs {
		h = h.add(uint64(o))
		for _, c := range cols {
			if v, ok := rows[o][c.Name]; ok {
				h = h.addStr(c.Name).add(v.U).addStr(v.S)
			}
		}
	}
	return fmt.Sprintf("%d:%x", len(offs), uint64(h))
}

// truncationPoints selects the crash points of a stream: every byte while it is small,
// otherwise every recorded write boundary +-2 plus a seeded sample.
func truncationPoints(n int, boundaries []int, everyByteBelow, samples int, rng *Rng) []int {
	set := map[int]bool{}
	add := func(p int) {
		if p >= 0 && p <= n {
			set[p] = true
		}
	}
	if n <= everyByteBelow {
		for p := 0; p <= n; p++ {
			add(p)
		}
	} else {
		for _, b := range boundaries {
			for d := -2; d <= 2; d++ {
				add(b + d)
			}
		}
		add(0)
		add(n)
		add(n - 1)
		for i := 0; i < samples; i++ {
			add(rng.Intn(n + 1))
		}
	}
	out := make([]int, 0, len(set))
	for p := range set {
		out = append(out, p)
	}
	sort.Ints(out)
	return out
}

// parseLastCommits reads the per-block commit ids out of the state part of a snapshot
// stream (version, column count, then per block: last commit id and one buffer per column).
func parseLastCommits(state []byte) (out map[uint32]uint64, err error) {
	defer func() {
		if r := recover(); r != nil {
			err = fmt.Errorf("panic: %v", r)
		}
	}()
	out = map[uint32]uint64{}
	r := iostream.NewReader(s2.NewReader(bytes.NewReader(state)))
	if v, err := r.ReadUvarint(); err != nil || v != 1 {
		return nil, fmt.Errorf("version %d: %v", v, err)
	}
	cols, err := r.ReadUvarint()
	if err != nil {
		return nil, err
	}
	err = r.ReadRange(func(i int, r *iostream.Reader) error {
		id, err := r.ReadUvarint()
		if err != nil {
			return err
		}
		out[uint32(i)] = id
		for k := uint64(0); k < cols; k++ {
			if _, err := commit.NewBuffer(0).ReadFrom(r); err != nil {
				return err
			}
		}
		return nil
	})
	return out, err
}

func describeTail(tail []commit.Commit, last map[uint32]uint64) string {
	s := " (logged:"
	for i, c := range tail {
		if i >= 8 {
			s += " ..."
			break
		}
		id, ok := last[uint32(c.Chunk)]
		s += fmt.Sprintf(" id=%d block=%d", c.ID, c.Chunk)
		if !ok {
			s += "[block not in state part]"
		} else if c.ID <= id {
			s += "[contained]"
		}
	}
	return s + ")"
}

type decodedCommit struct {
	ID    uint64
	Chunk uint32
	Key   string
}

// tapKey is decodeKey for a commit as the recording logger received it.
func tapKey(tc *TapCommit) decodedCommit {
	d := decodedCommit{ID: tc.ID, Chunk: tc.Chunk}
	h := hashInit
	for _, b := range tc.Bufs {
		h = h.addStr(b.Col)
		for _, op := range b.Ops {
			h = h.add(uint64(op.Type)<<32 | uint64(op.Off)).addStr(string(op.Val))
		}
	}
	d.Key = fmt.Sprintf("%x", uint64(h))
	return d
}

func decodeKey(c commit.Commit) decodedCommit {
	d := decodedCommit{ID: c.ID, Chunk: uint32(c.Chunk)}
	h := hashInit
	for _, b := range decodeCommit(c) {
		h = h.addStr(b.Col)
		for _, op := range b.Ops {
			h = h.add(uint64(op.Type)<<32 | uint64(op.Off)).addStr(string(op.Val))
		}
	}
	d.Key = fmt.Sprintf("%x", uint64(h))
	return d
}

// truncationChecks is the C13 oracle over the streams a concurrent run produced: every
// snapshot (state part + log tail recorded under concurrent commits) and the primary's
// commit log.
func (w *World) truncationChecks(everyByteBelow, samples int) {
	st := w.conc
	rng := NewRng(w.cs.Seed, uint64(w.cs.Run), 61)
	limit := 10 * time.Second
	// ---- snapshots
	for si, s := range st.snaps {
		if s.err != nil {
			continue
		}
		data := s.file.Data
		stateLen := s.stateLen
		if stateLen <= 0 || stateLen > len(data) {
			stateLen = len(data)
		}
		// the commits of the log tail
		var tail []commit.Commit
		if stateLen < len(data) {
			err := commit.Open(NewSimReader(data[stateLen:], nil, 0)).Range(func(c commit.Commit) error {
				tail = append(tail, c)
				return nil
			})
			if err != nil {
				w.fail(violation("truncated-snapshot/complete-tail-unreadable", "the log tail of complete snapshot #%d does not range: %v", si, err))
				return
			}
			w.stats.probe("snapshot-with-log-tail")
		}
		// D_j = the complete block states plus the first j logged commits, each whole and in
		// order. The reference is built without the reconcile step of Restore: the state part is
		// restored on its own (no log follows it), the per-block commit ids it records are parsed
		// by the harness, and the logged commits are replayed one by one, skipping exactly those
		// a block's state already contains (id not above the block's recorded id; a block the
		// state part does not hold contains nothing).
		last, perr := parseLastCommits(data[:stateLen])
		if perr != nil {
			w.fail(violation("truncated-snapshot/state-part-unreadable", "the state part of complete snapshot #%d does not parse: %v", si, perr))
			return
		}
		legal := map[string]int{}
		ref := w.newCollection(nil)
		if err := ref.Restore(NewSimReader(data[:stateLen], nil, 0)); err != nil {
			w.fail(violation("truncated-snapshot/reference-restore", "restoring the complete state part of snapshot #%d failed: %v", si, err))
			return
		}
		refKeys := []string{rowsKey(w.model.Cols, readAllRows(ref, w.model.Cols))}
		legal[refKeys[0]] = 0
		if stateLen < len(data) {
			j := 0
			err := commit.Open(NewSimReader(data[stateLen:], nil, 0)).Range(func(c commit.Commit) error {
				j++
				if c.ID > last[uint32(c.Chunk)] {
					if _, held := last[uint32(c.Chunk)]; !held {
						w.stats.probe("logged-commit-to-block-absent-from-state-part")
					}
					if err := ref.Replay(c); err != nil {
						return err
					}
				} else {
					w.stats.probe("logged-commit-already-in-block-state")
				}
				k := rowsKey(w.model.Cols, readAllRows(ref, w.model.Cols))
				refKeys = append(refKeys, k)
				if _, seen := legal[k]; !seen {
					legal[k] = j
				}
				return nil
			})
			if err != nil {
				w.fail(violation("truncated-snapshot/reference-replay", "replaying the log tail of snapshot #%d on the restored state part failed: %v", si, err))
				return
			}
		}
		ref.Close()
		// complete streams: the state part followed by a log of the first j commits must restore
		// to one of D_0..D_j (it cannot hold more than it was given)
		for j := 1; j <= len(tail); j++ {
			lf := &SimRW{SimFile: NewSimFile()}
			lg := commit.Open(lf)
			for _, c := range tail[:j] {
				if err := lg.Append(c); err != nil {
					panic(err)
				}
			}
			stream := append(append([]byte{}, data[:stateLen]...), lf.Data...)
			fresh := w.newCollection(nil)
			w.stats.Checks++
			if err := fresh.Restore(NewSimReader(stream, nil, 0)); err != nil {
				w.fail(violation("truncated-snapshot/complete-stream-rejected", "restoring the complete state part of snapshot #%d plus a log of its first %d commits failed: %v", si, j, err))
				return
			}
			k := rowsKey(w.model.Cols, readAllRows(fresh, w.model.Cols))
			if at, ok := legal[k]; !ok || at > j {
				w.fail(violation("truncated-snapshot/log-tail-not-a-prefix", "snapshot #%d: the state part followed by its first %d logged commits (of %d) restores to a state that equals the block states plus no prefix of those commits applied whole and in order%s", si, j, len(tail), describeTail(tail[:j], last)))
				return
			}
			fresh.Close()
			runtime.Gosched()
		}
		mode := "eof"
		seenKey := map[string]bool{}
		for _, p := range truncationPoints(len(data), s.file.Boundaries(), everyByteBelow, samples, rng) {
			for _, mode = range []string{"eof", "readerr"} {
				if mode == "readerr" && p%3 != 0 {
					continue // read errors at a third of the points
				}
				fresh := w.newCollection(nil)
				rd := NewSimReader(data[:p], nil, 0)
				if rng.Chance(0.3) {
					rd = NewSimReader(data[:p], NewRng(uint64(p), 3), []int{1, 5, 64}[rng.Intn(3)])
					w.stats.fault("read-chunking")
				}
				if mode == "readerr" {
					rd = NewSimReader(data, nil, 0)
					rd.ErrAt = p
				}
				w.stats.Checks++
				err, pv, frame, hung := guarded(limit, func() error { return fresh.Restore(rd) })
				if mode == "eof" {
					w.stats.fault("crash-truncation")
				} else {
					w.stats.fault("read-error")
				}
				what := fmt.Sprintf("snapshot #%d (%d bytes, state part %d, %d logged commits) cut at byte %d (%s)", si, len(data), stateLen, len(tail), p, mode)
				switch {
				case hung:
					w.taint = true
					w.fail(violation("truncated-snapshot/hang", "Restore of %s did not return within %v", what, limit))
					return
				case pv != nil:
					w.fail(violation("truncated-snapshot/panic/"+frame, "Restore of %s panicked: %v", what, pv))
					return
				case err == nil:
					rows := readAllRows(fresh, w.model.Cols)
					key := rowsKey(w.model.Cols, rows)
					if _, ok := legal[key]; !ok {
						w.fail(violation("truncated-snapshot/silent-wrong-state", "Restore of %s returned nil but the state equals none of the %d commit-boundary states", what, len(legal)))
						return
					}
					// ... and against the model, which does not trust the per-block commit ids the
					// stream records: every block must equal the primary's block after some prefix of
					// its commits (not judged when the snapshot read a block with a reserved insert:
					// C08's known finding)
					if stateLen <= p && !w.triggered["snapshot-reserved"] && !seenKey[key] {
						seenKey[key] = true
						if v := w.checkRestoredCut(si, s, fresh, rows, s.ack, "Restore of "+what); v != nil {
							v.Sig = "truncated-snapshot/" + v.Sig
							w.fail(v)
							return
						}
					}
					w.stats.probe("truncated-restore-accepted-at-commit-boundary")
				default:
					w.stats.probe("truncated-restore-rejected")
				}
				fresh.Close()
				w.colls = w.colls[:len(w.colls)-1]
				runtime.Gosched() // lets the cancelled vacuum goroutine exit and release its collection
			}
		}
	}
	// ---- the primary's commit log
	if st.logFile != nil && len(st.logFile.Data) > 0 {
		w.logTruncationChecks(st.logFile, w.tap.Commits, st.logOrder, everyByteBelow, samples, rng)
	}
}

// orderedLog stands between the recording logger and the real commit.Log: it notes the
// order in which the log took the commits (Log.Append returns right after releasing the
// log's own lock, with no scheduling point in between, so the order of the returns is the
// order in the file) and what each Append answered.
type orderedLog struct {
	lg    *commit.Log
	order []decodedCommit
	acked []bool
}

func (o *orderedLog) Append(c commit.Commit) error {
	err := o.lg.Append(c)
	o.order = append(o.order, decodeKey(c))
	o.acked = append(o.acked, err == nil)
	return err
}

// logTruncationChecks enumerates crash points of a commit log: Range over every prefix
// must deliver a prefix of the original commits, each identical, without panic or hang.
func (w *World) logTruncationChecks(file *SimRW, appended []*TapCommit, lo *orderedLog, everyByteBelow, samples int, rng *Rng) {
	limit := 10 * time.Second
	{
		data := file.Data
		// a write to the log's destination failed while the history ran: the file is itself the
		// remains of a failure while writing, it need not range to the end nor hold every commit
		faulted := file.Fired > 0
		if faulted {
			w.stats.fault("log-write-error")
		}
		var full []decodedCommit
		if err := commit.Open(NewSimReader(data, nil, 0)).Range(func(c commit.Commit) error {
			full = append(full, decodeKey(c))
			return nil
		}); err != nil && !faulted {
			w.fail(violation("truncated-log/complete-unreadable", "the complete log does not range: %v", err))
			return
		}
		// the commits on disk are the commits that were appended: same number, same ids, same
		// operations (a commit is the unit a crash may or may not leave behind)
		if appended != nil {
			if len(full) != len(appended) && !faulted {
				w.fail(violation("truncated-log/commit-count", "%d commits were appended to the log, Range over the complete log delivers %d", len(appended), len(full)))
				return
			}
			if len(full) > len(appended) {
				w.fail(violation("truncated-log/extra-commit", "%d commits were handed to the log, Range over it delivers %d", len(appended), len(full)))
				return
			}
			// per block in the same order (commits to different blocks are appended under different
			// latches: their order in the file is decided at the log's own lock)
			perBlock := map[uint32][]decodedCommit{}
			for _, tc := range appended {
				perBlock[tc.Chunk] = append(perBlock[tc.Chunk], tapKey(tc))
			}
			for i := range full {
				q := perBlock[full[i].Chunk]
				if len(q) == 0 || q[0] != full[i] {
					w.fail(violation("truncated-log/commit-differs", "commit #%d read back from the complete log (id %d block %d) is not the next commit appended for that block", i, full[i].ID, full[i].Chunk))
					return
				}
				perBlock[full[i].Chunk] = q[1:]
			}
		}
		if lo != nil {
			// ... and in the order the log took them: what the file holds is a prefix of that
			// sequence, which contains at least every commit acknowledged before the first failure
			for i := range full {
				if i >= len(lo.order) || full[i] != lo.order[i] {
					w.fail(violation("truncated-log/not-a-prefix", "commit #%d read back from the log (id %d block %d) is not the %d. commit the log was handed: the file does not hold a prefix of the logged commits (write errors injected: %d)", i, full[i].ID, full[i].Chunk, i+1, file.Fired))
					return
				}
			}
			durable := 0
			for durable < len(lo.acked) && lo.acked[durable] {
				durable++
			}
			if len(full) < durable {
				w.fail(violation("truncated-log/acknowledged-commit-missing", "Log.Append returned nil for the first %d commits, Range over the log delivers %d (write errors injected: %d)", durable, len(full), file.Fired))
				return
			}
			if faulted && durable < len(lo.acked) {
				w.stats.probe("log-append-failed-during-history")
			}
		}
		for _, p := range truncationPoints(len(data), file.Boundaries(), everyByteBelow, samples, rng) {
			rd := NewSimReader(data[:p], nil, 0)
			mode := "eof"
			if p%4 == 1 {
				rd = NewSimReader(data, nil, 0)
				rd.ErrAt = p
				mode = "readerr"
				w.stats.fault("read-error")
			} else {
				w.stats.fault("crash-truncation")
			}
			var got []decodedCommit
			w.stats.Checks++
			lg := commit.Open(rd)
			_, pv, frame, hung := guarded(limit, func() error {
				return lg.Range(func(c commit.Commit) error {
					got = append(got, decodeKey(c))
					return nil
				})
			})
			what := fmt.Sprintf("log (%d bytes, %d commits) cut at byte %d (%s)", len(data), len(full), p, mode)
			if !hung && pv == nil && p%5 == 2 {
				// the same Log object must stay usable after it ranged over a cut (a recovering
				// process goes on appending to it): ranging again must return, not block on a lock
				// the first pass left held
				_, pv2, frame2, hung2 := guarded(3*time.Second, func() error { return lg.Range(func(commit.Commit) error { return nil }) })
				if hung2 {
					w.taint = true
					w.fail(violation("truncated-log/hang-on-reuse", "a second Range on the Log that ranged over %s did not return within 3s", what))
					return
				}
				if pv2 != nil {
					w.fail(violation("truncated-log/panic/"+frame2, "a second Range on the Log that ranged over %s panicked: %v", what, pv2))
					return
				}
			}
			switch {
			case hung:
				w.taint = true
				w.fail(violation("truncated-log/hang", "Range over %s did not return within %v", what, limit))
				return
			case pv != nil:
				w.fail(violation("truncated-log/panic/"+frame, "Range over %s panicked: %v", what, pv))
				return
			}
			if len(got) > len(full) {
				w.fail(violation("truncated-log/extra-commit", "Range over %s delivered %d commits", what, len(got)))
				return
			}
			for i := range got {
				if got[i] != full[i] {
					w.fail(violation("truncated-log/partial-commit", "Range over %s delivered commit #%d different from the original (id %d block %d vs id %d block %d)", what, i, got[i].ID, got[i].Chunk, full[i].ID, full[i].Chunk))
					return
				}
			}
		}
	}
}

// ---------------------------------------------------------------------------------
// C14

func fdCount() int {
	ents, err := os.ReadDir("/proc/self/fd")
	if err != nil {
		return -1
	}
	return len(ents)
}

func tmpEntries() []string {
	ents, _ := os.ReadDir(os.TempDir())
	var out []string
	for _, e := range ents {
		out = append(out, e.Name())
	}
	return out
}

// snapshotFaultChecks enumerates destination-writer faults against the collection the
// history produced: every write-call index and every byte budget, fail-once and
// fail-forever, plus "temp dir unavailable". After each failed call the collection must
// still commit, snapshot to a healthy writer and restore to the model; no temp file or
// descriptor may be left behind.
func (w *World) snapshotFaultChecks(everyByteBelow, samples int) {
	old := debug.SetGCPercent(-1) // finalizers must not hide a descriptor leak
	defer debug.SetGCPercent(old)
	runtime.GC()
	rng := NewRng(w.cs.Seed, uint64(w.cs.Run), 67)
	// a healthy snapshot tells the stream length and the number of write calls
	ref := NewSimFile()
	fd0 := fdCount()
	if err := w.primary.Snapshot(ref); err != nil {
		w.fail(violation("snapshot-error", "Snapshot to a healthy writer returned %v", err))
		return
	}
	if left := tmpEntries(); len(left) > 0 {
		w.fail(violation("snapshot-leak/temp-file/success", "a successful Snapshot left %v in the temp dir", left))
		return
	}
	if fd1 := fdCount(); fd1 != fd0 {
		w.fail(violation("snapshot-leak/fd/success", "a successful Snapshot changed the number of open descriptors from %d to %d", fd0, fd1))
		return
	}
	type plan struct {
		p    WritePlan
		what string
	}
	var plans []plan
	for k := 1; k <= len(ref.Writes)+1; k++ {
		plans = append(plans, plan{WritePlan{FailAtCall: k, FailAtByte: -1}, fmt.Sprintf("write call %d fails (and every later one)", k)})
		if k%2 == 1 {
			plans = append(plans, plan{WritePlan{FailAtCall: k, FailAtByte: -1, Once: true}, fmt.Sprintf("write call %d fails once", k)})
		}
	}
	for _, n := range truncationPoints(len(ref.Data)+1, ref.Boundaries(), everyByteBelow, samples, rng) {
		plans = append(plans, plan{WritePlan{FailAtByte: n}, fmt.Sprintf("writer accepts %d bytes then fails (short write)", n)})
	}
	plans = append(plans, plan{WritePlan{FailAtByte: -1}, "tempdir"})
	for i, pl := range plans {
		f := NewSimFile()
		f.Plan = pl.p
		tmp := os.Getenv("TMPDIR")
		if pl.what == "tempdir" {
			os.Setenv("TMPDIR", tmp+"/missing")
			w.stats.fault("temp-dir-unavailable")
		}
		fdBefore := fdCount()
		w.stats.Checks++
		var err error
		func() {
			defer func() {
				if r := recover(); r != nil {
					w.fail(violation("snapshot-fault/panic/"+panicFrame(), "Snapshot panicked when %s: %v", pl.what, r))
				}
			}()
			err = w.primary.Snapshot(f)
		}()
		if pl.what == "tempdir" {
			os.Setenv("TMPDIR", tmp)
			if err == nil {
				w.fail(violation("snapshot-fault/unreported/tempdir", "Snapshot returned nil although the temp dir does not exist"))
			}
		}
		if w.viol != nil {
			return
		}
		switch {
		case pl.p.FailAtCall > 0:
			w.stats.fault("write-error-at-call")
		case pl.p.FailAtByte >= 0:
			w.stats.fault("short-write-at-byte")
		}
		if pl.p.Once && f.Fired > 0 {
			w.stats.fault("fail-once-then-heal")
		}
		if pl.what != "tempdir" && (err != nil) != (f.Fired > 0) {
			if err == nil {
				w.fail(violation("snapshot-fault/unreported", "the destination writer returned an error (%s; %d of %d bytes accepted) but Snapshot returned nil", pl.what, len(f.Data), len(ref.Data)))
			} else {
				w.fail(violation("snapshot-fault/spurious-error", "Snapshot returned %v although the destination writer never failed (%s)", err, pl.what))
			}
			return
		}
		if left := tmpEntries(); len(left) > 0 {
			w.fail(violation("snapshot-leak/temp-file", "after a Snapshot in which %s (err=%v) the temp dir holds %v", pl.what, err, left))
			return
		}
		if fdAfter := fdCount(); fdAfter != fdBefore {
			w.fail(violation("snapshot-leak/fd", "a Snapshot in which %s (err=%v) changed the number of open descriptors from %d to %d", pl.what, err, fdBefore, fdAfter))
			return
		}
		if i%20 == 19 {
			// the descriptor count of this point has been judged: collecting now cannot hide a leak
			runtime.GC()
		}
		// the collection keeps working: every few points commit something, then snapshot to
		// a healthy writer and restore
		if i%7 == 0 || i == len(plans)-1 {
			tp := &TxnProg{Ops: []Op{{Kind: "at", Target: Target{Mode: "live", K: i}, Writes: []Write{{Col: "expire", Val: Val{U: uint64(1000 + i)}}}}}}
			// the transaction touches every plain value column (several update buffers taken from
			// the page pool one after the other)
			for ci, col := range w.model.Cols {
				if col.Name == "expire" || col.Kind == KKey || col.Kind == KRecord || col.Kind == KEnum {
					continue
				}
				var v Val
				switch {
				case col.Kind == KString:
					v = strVal(fmt.Sprintf("after-fault-%d-%d", i, ci))
				case col.Kind == KBool:
					v = Val{U: uint64(i & 1)}
				default:
					v = Val{U: uint64(3*i + ci)}
				}
				tp.Ops[0].Writes = append(tp.Ops[0].Writes, Write{Col: col.Name, Val: v})
			}
			if len(w.model.Rows) == 0 {
				if _, ok := w.model.KeyCol(); !ok {
					tp = &TxnProg{Ops: []Op{{Kind: "insert", Writes: []Write{{Col: "expire", Val: Val{U: uint64(1000 + i)}}}}}}
				}
			}
			good := NewSimFile()
			var serr error
			_, pv, frame, hung := guarded(20*time.Second, func() error {
				w.runTxn(tp, true)
				if w.viol == nil {
					serr = w.primary.Snapshot(good)
				}
				return nil
			})
			if hung {
				w.taint = true
				w.viol = nil
				w.fail(violation("after-failed-snapshot/hang", "after a Snapshot in which %s (err=%v), the next transaction or snapshot did not return within 20s (a latch or lock was left held)", pl.what, err))
				return
			}
			if pv != nil {
				w.fail(violation("after-failed-snapshot/panic/"+frame, "after a Snapshot in which %s: %v", pl.what, pv))
				return
			}
			if w.viol != nil {
				w.viol.Sig = "after-failed-snapshot/" + w.viol.Sig
				return
			}
			if serr != nil {
				w.fail(violation("after-failed-snapshot/snapshot-error", "after a Snapshot in which %s, a Snapshot to a healthy writer returned %v", pl.what, serr))
				return
			}
			fresh := w.newCollection(nil)
			if err := fresh.Restore(NewSimReader(good.Data, nil, 0)); err != nil {
				w.fail(violation("after-failed-snapshot/restore-error", "after a Snapshot in which %s, the next healthy snapshot does not restore: %v", pl.what, err))
				return
			}
			if v := CompareDump(fresh, w.model, w.cs.Cfg.KeyAlpha, w.dumpRows(i)); v != nil {
				v.Sig = "after-failed-snapshot/" + v.Sig
				v.Detail = fmt.Sprintf("after a Snapshot in which %s, the next healthy snapshot restores to a different state: %s", pl.what, v.Detail)
				w.fail(v)
				return
			}
			if v := CompareDump(w.primary, w.model, w.cs.Cfg.KeyAlpha, w.dumpRows(i)); v != nil {
				v.Sig = "after-failed-snapshot/primary/" + v.Sig
				w.fail(v)
				return
			}
			fresh.Close()
			w.colls = w.colls[:len(w.colls)-1]
			runtime.Gosched()
		}
	}
}

var _ = column.SimBeforeLock

// runBigLog is the C13 history with commits larger than one 1 MiB s2 block: one
// transaction alternates between two full 16K blocks, storing a string and a number in
// every row, so that each of its two commits spans several s2 frames and carries 16K
// shard headers per buffer; the log is then cut at every frame boundary (+-2) and ranged.
func runBigLog(cs *Case) (w *World) {
	w = newWorld(cs)
	curWorld = w
	defer func() {
		curWorld = nil
		w.close()
		w.stats.Trace = uint64(hashInit.add(uint64(w.stats.Checks)).add(uint64(len(w.tap.Commits))))
	}()
	commit.SimSetID(1000)
	rng := NewRng(cs.Seed, uint64(cs.Run), 97)
	w.tap = &Tap{w: w}
	file := &SimRW{SimFile: NewSimFile()}
	lg := commit.Open(file)
	w.primary = w.newCollection(w.tap)
	w.prefill(w.primary, cs.Cfg.Prefill)
	w.tap.Commits = nil
	w.tap.Sinks = []commit.Logger{lg}
	strLen := cs.Cfg.Params["str_len"]
	rows := cs.Cfg.Params["rows"]
	val := bulkValue(uint32(cs.Run), strLen)
	err := w.primary.Query(func(txn *column.Txn) error {
		for i := 0; i < rows; i++ {
			for _, off := range []uint32{uint32(i), uint32(1<<14 + i)} {
				txn.QueryAt(off, func(r column.Row) error {
					r.SetString("a", val)
					r.SetInt64("b", int64(i))
					return nil
				})
			}
		}
		return nil
	})
	if err != nil {
		w.fail(violation("query-result", "%v", err))
		return w
	}
	w.stats.Commits++
	w.stats.Txns++
	// a small ordinary commit after the big ones
	w.primary.QueryAt(5, func(r column.Row) error { r.SetInt64("b", -1); return nil })
	if len(file.Data) > 2<<20 {
		w.stats.probe("commits-above-1MiB-in-log")
	}
	w.logTruncationChecks(file, w.tap.Commits, nil, 0, 40, rng)
	w.stats.EndState = uint64(hashInit.add(uint64(len(file.Data))))
	w.stats.Nontrivial = len(w.tap.Commits) >= 2
	return w
}
