package colsim

import (
	"fmt"
	"sort"

	"github.com/kelindar/column"
	"github.com/kelindar/column/commit"
)

// loggerFunc adapts a function to commit.Logger.
type loggerFunc func(c commit.Commit) error

func (f loggerFunc) Append(c commit.Commit) error { return f(c) }

func newWorld(cs *Case) *World {
	w := &World{cs: cs, stats: &RunStats{}, txns: map[int]*MTxn{}, inserts: map[int][]uint32{}}
	w.model = NewModel()
	w.avoid = map[string]bool{}
	for _, a := range cs.Cfg.Avoid {
		w.avoid[a] = true
	}
	w.model.Cols = append(w.model.Cols, cs.Schema...)
	w.model.Indexes = append(w.model.Indexes, cs.Indexes...)
	return w
}

// seqOracles selects which per-step oracles a single-client world runs.
type seqOracles struct {
	dump      bool // full-state comparison with the model after every step
	twin      bool // C02 part A: a twin collection runs the history without the aborted transactions
	triggers  bool
	trigRep   bool           // C19: the stream is replayed on a replica that carries the same triggers; they must be told the same
	stream    bool           // tap-based stream checks (nothing emitted for rollbacks, ...)
	final     func(w *World) // extra checks on the final state (fault enumeration)
	start     func(w *World) // called once the primary exists and is prefilled, before the first step
	each      func(w *World) // called after every step
	roundtrip bool           // every emitted commit is also cloned and serialized through the simulated disk
}

// runSeq executes a single-client history.
func runSeq(cs *Case, or seqOracles) (w *World) {
	w = newWorld(cs)
	curWorld = w
	defer func() {
		curWorld = nil
		w.close()
		w.stats.Trace = uint64(hashInit.add(uint64(w.stats.Ops)).add(uint64(w.stats.Reads)).add(uint64(w.stats.Dumps)).add(w.model.stateHash()).add(uint64(len(w.tap.Commits))))
	}()
	commit.SimSetID(1000)
	w.tap = &Tap{w: w}
	w.trig = newTrigLog(w)
	w.primary = w.newCollection(w.tap)
	w.prefill(w.primary, cs.Cfg.Prefill)
	prefillModel(w.model, cs.Cfg.Prefill)
	w.tap.Commits = nil
	w.tap.failAt, w.tap.failOnce = cs.Cfg.Params["stream_fail_at"], cs.Cfg.Params["stream_fail_once"] == 1
	if or.stream {
		rng := NewRng(cs.Seed, uint64(cs.Run), 83)
		w.tap.onAppend = func(tc *TapCommit, c commit.Commit) {
			if w.viol != nil || curWorld != w {
				return
			}
			if mt := w.txns[0]; mt != nil {
				tc.mt = mt
				w.stats.Checks++
				w.fail(w.checkDecoded(tc, mt, mt.changes[tc.Chunk]))
			}
			if or.roundtrip && w.viol == nil {
				w.fail(w.tapRoundTrip(tc, c, rng))
			}
		}
	}

	// C19 on a replica: every emitted commit is cloned, replayed on a second collection with
	// the same schema and the same triggers (created and dropped in lockstep), whose callbacks
	// must report exactly what the primary's must
	var rep *column.Collection
	var repTrig *trigLog
	var pending []commit.Commit
	if or.trigRep {
		rep = w.newCollection(nil)
		w.prefill(rep, cs.Cfg.Prefill)
		repTrig = newTrigLog(w)
		w.trigRep = repTrig
		w.tap.Sinks = append(w.tap.Sinks, loggerFunc(func(c commit.Commit) error {
			pending = append(pending, c.Clone())
			return nil
		}))
	}

	var twin *World
	if or.twin {
		twin = newWorld(cs)
		twin.tap = &Tap{w: twin}
		twin.trig = newTrigLog(twin)
		twin.primary = twin.newCollection(twin.tap)
		twin.prefill(twin.primary, cs.Cfg.Prefill)
		prefillModel(twin.model, cs.Cfg.Prefill)
		defer twin.close()
	}

	// no observation between a failed transaction and the schema changes that directly follow
	// it: the dump runs transactions of its own, and a pooled transaction object that came back
	// from the failed one in a bad state would be healed by them before a drop + re-create
	// under the same name could expose it
	schemaStep := func(i int) bool {
		if i < 0 || i >= len(cs.Steps) {
			return false
		}
		switch cs.Steps[i].Kind {
		case "dropcol", "createcol", "dropindex", "createindex", "dropsort", "createsort":
			return true
		}
		return false
	}
	quietAfter := func(i int) bool {
		// ... and none after the last schema step of such a chain if a transaction follows: that
		// transaction is then the first one to use the re-created name (its own oracles judge it)
		if i < 0 || i+1 >= len(cs.Steps) || !(schemaStep(i+1) || schemaStep(i)) {
			return false
		}
		for j := i; j >= 0; j-- {
			if t := cs.Steps[j].Txn; cs.Steps[j].Kind == "txn" && t != nil {
				return t.Abort
			}
			if !schemaStep(j) {
				return false
			}
		}
		return false
	}
	check := func(step int) bool {
		if w.viol != nil {
			return false
		}
		if quietAfter(step) && twin == nil {
			w.stats.probe("no-observation-between-failed-transaction-and-schema-change")
			return true
		}
		if or.dump {
			w.stats.Dumps++
			if v := CompareDump(w.primary, w.model, cs.Cfg.KeyAlpha, w.dumpRows(step)); v != nil {
				v.Detail = fmt.Sprintf("after step %d: %s", step, v.Detail)
				w.fail(v)
				return false
			}
		}
		return true
	}
	if or.start != nil {
		or.start(w)
	}
	if !check(-1) {
		return w
	}
	for i := range cs.Steps {
		st := &cs.Steps[i]
		switch st.Kind {
		case "txn":
			before := len(w.tap.Commits)
			w.runTxn(st.Txn, true)
			if w.viol == nil && or.triggers {
				if v := w.trig.check(); v != nil {
					v.Detail = fmt.Sprintf("step %d: %s", i, v.Detail)
					w.fail(v)
				}
			}
			if rep != nil && w.viol == nil {
				for _, c := range pending {
					if err := rep.Replay(c); err != nil {
						w.fail(violation("replica/replay-error", "step %d: Replay returned %v", i, err))
					}
				}
				pending = pending[:0]
				if v := repTrig.check(); v != nil && w.viol == nil {
					v.Sig = "replica-" + v.Sig
					v.Detail = fmt.Sprintf("step %d, on a replica fed the change stream: %s", i, v.Detail)
					w.fail(v)
				}
			}
			if w.viol == nil && or.stream && st.Txn.Abort && len(w.tap.Commits) != before {
				w.fail(violation("stream/emitted-on-rollback", "step %d: a rolled-back transaction emitted %d commits", i, len(w.tap.Commits)-before))
			}
			if twin != nil && w.viol == nil && !st.Txn.Abort {
				curWorld = twin
				twin.runTxn(st.Txn, true)
				curWorld = w
				if twin.viol != nil {
					v := *twin.viol
					v.Sig = "twin/" + v.Sig
					w.fail(&v)
				}
			}
		case "createcol":
			if st.Arg == 1 {
				// the name is taken: the call is refused and the existing column stays as it is
				if _, taken := w.model.Col(st.Col.Name); taken || st.Col.Name == "expire" {
					if err := w.primary.CreateColumn(st.Col.Name, makeColumn(*st.Col)); err == nil {
						w.fail(violation("schema", "CreateColumn(%q) over an existing column returned nil", st.Col.Name))
					}
					if twin != nil {
						twin.primary.CreateColumn(st.Col.Name, makeColumn(*st.Col))
					}
					w.stats.probe("create-column-refused-name-taken")
				}
				break
			}
			if err := w.primary.CreateColumn(st.Col.Name, makeColumn(*st.Col)); err != nil {
				w.fail(violation("schema", "CreateColumn(%q): %v", st.Col.Name, err))
			}
			w.model.Cols = append(w.model.Cols, *st.Col)
			if rep != nil {
				rep.CreateColumn(st.Col.Name, makeColumn(*st.Col))
			}
			if twin != nil {
				twin.primary.CreateColumn(st.Col.Name, makeColumn(*st.Col))
				twin.model.Cols = append(twin.model.Cols, *st.Col)
			}
		case "dropcol":
			w.primary.DropColumn(st.Name)
			dropColSpec(w.model, st.Name)
			if rep != nil {
				rep.DropColumn(st.Name)
			}
			if twin != nil {
				twin.primary.DropColumn(st.Name)
				dropColSpec(twin.model, st.Name)
			}
			w.stats.probe("column-dropped")
		case "createindex":
			if err := w.primary.CreateIndex(st.Index.Name, st.Index.Col, st.Index.Pred.rule()); err != nil {
				w.fail(violation("schema", "CreateIndex(%q): %v", st.Index.Name, err))
			}
			w.model.Indexes = append(w.model.Indexes, *st.Index)
			if twin != nil {
				twin.primary.CreateIndex(st.Index.Name, st.Index.Col, st.Index.Pred.rule())
				twin.model.Indexes = append(twin.model.Indexes, *st.Index)
			}
		case "dropindex":
			if err := w.primary.DropIndex(st.Name); err != nil {
				w.fail(violation("schema", "DropIndex(%q): %v", st.Name, err))
			}
			dropIndexSpec(w.model, st.Name)
			if twin != nil {
				twin.primary.DropIndex(st.Name)
				dropIndexSpec(twin.model, st.Name)
			}
		case "createsort":
			if err := w.primary.CreateSortIndex(st.Sort.Name, st.Sort.Col); err != nil {
				w.fail(violation("schema", "CreateSortIndex(%q): %v", st.Sort.Name, err))
			}
			w.model.Sorts = append(w.model.Sorts, *st.Sort)
		case "dropsort":
			if err := w.primary.DropIndex(st.Name); err != nil {
				w.fail(violation("schema", "DropIndex(%q): %v", st.Name, err))
			}
			for k, s := range w.model.Sorts {
				if s.Name == st.Name {
					w.model.Sorts = append(w.model.Sorts[:k:k], w.model.Sorts[k+1:]...)
					break
				}
			}
		case "createtrigger":
			if err := w.trig.create(w.primary, st.Name, st.Col.Name); err != nil {
				w.fail(violation("schema", "CreateTrigger(%q): %v", st.Name, err))
			}
			if rep != nil {
				if err := repTrig.create(rep, st.Name, st.Col.Name); err != nil {
					w.fail(violation("schema", "CreateTrigger(%q) on the replica: %v", st.Name, err))
				}
			}
		case "droptrigger":
			if err := w.trig.drop(w.primary, st.Name); err != nil {
				w.fail(violation("schema", "DropTrigger(%q): %v", st.Name, err))
			}
			if rep != nil {
				if err := repTrig.drop(rep, st.Name); err != nil {
					w.fail(violation("schema", "DropTrigger(%q) on the replica: %v", st.Name, err))
				}
			}
		case "restart":
			w.restart(st.Arg)
		default:
			panic("unknown step " + st.Kind)
		}
		if !check(i) {
			return w
		}
		if or.each != nil {
			or.each(w)
		}
		if twin != nil && w.viol == nil {
			if v := CompareDump(twin.primary, w.model, cs.Cfg.KeyAlpha, nil); v != nil {
				v.Sig = "rollback-trace/" + v.Sig
				v.Detail = fmt.Sprintf("after step %d the collection that also ran the rolled-back transactions differs from its twin that did not: %s", i, v.Detail)
				w.fail(v)
				return w
			}
		}
	}
	if or.final != nil && w.viol == nil {
		or.final(w)
	}
	w.stats.EndState = w.model.stateHash()
	w.stats.Nontrivial = w.stats.Commits > 0 && len(w.model.Rows) > 0
	return w
}

// dropColSpec removes a column and everything stored in it from the model.
func dropColSpec(m *Model, name string) {
	for k, c := range m.Cols {
		if c.Name == name {
			m.Cols = append(m.Cols[:k:k], m.Cols[k+1:]...)
			break
		}
	}
	for _, r := range m.Rows {
		delete(r, name)
	}
	for _, t := range m.Touched {
		delete(t, name)
	}
}

func dropIndexSpec(m *Model, name string) {
	for k, ix := range m.Indexes {
		if ix.Name == name {
			m.Indexes = append(m.Indexes[:k:k], m.Indexes[k+1:]...)
			return
		}
	}
}

// dumpRows chooses the rows whose values a dump reads: all of them while the collection is
// small, otherwise the rows the last transaction touched plus a seeded sample (a full
// block holds 16K rows; the live set and every index selection are always compared in full).
func (w *World) dumpRows(step int) []uint32 {
	if len(w.model.Rows) <= 200 {
		return nil
	}
	live := w.model.Live()
	rng := NewRng(w.cs.Seed, uint64(w.cs.Run), uint64(step+7), 99)
	rows := append([]uint32{}, w.touched...)
	rows = append(rows, live[0], live[len(live)-1])
	for i := 0; i < 40; i++ {
		rows = append(rows, live[rng.Intn(len(live))])
	}
	sort.Slice(rows, func(i, j int) bool { return rows[i] < rows[j] })
	out := rows[:0]
	for i, o := range rows {
		if i == 0 || o != rows[i-1] {
			out = append(out, o)
		}
	}
	return out
}

// tapRoundTrip sends a commit emitted by the real commit path through Commit.Clone and
// through Commit.WriteTo -> SimFile -> chunked Commit.ReadFrom and compares what comes out
// with what the logger was handed.
func (w *World) tapRoundTrip(tc *TapCommit, c commit.Commit, rng *Rng) *Violation {
	w.stats.Checks++
	same := func(what string, got []TapBuf) *Violation {
		if len(got) != len(tc.Bufs) {
			return violation("codec/"+what, "%s after %s carries %d non-empty buffers instead of %d", tc, what, len(got), len(tc.Bufs))
		}
		for i := range got {
			g, o := got[i], tc.Bufs[i]
			if g.Col != o.Col || len(g.Ops) != len(o.Ops) {
				return violation("codec/"+what, "%s after %s: buffer %q with %d operations, emitted %q with %d", tc, what, g.Col, len(g.Ops), o.Col, len(o.Ops))
			}
			for j := range g.Ops {
				if g.Ops[j].Type != o.Ops[j].Type || g.Ops[j].Off != o.Ops[j].Off || string(g.Ops[j].Val) != string(o.Ops[j].Val) {
					return violation("codec/"+what, "%s after %s: buffer %q operation #%d is {%s @%d %x}, emitted {%s @%d %x}", tc, what, g.Col, j,
						g.Ops[j].Type, g.Ops[j].Off, clipB(g.Ops[j].Val), o.Ops[j].Type, o.Ops[j].Off, clipB(o.Ops[j].Val))
				}
			}
		}
		return nil
	}
	cl := c.Clone()
	if cl.ID != c.ID || cl.Chunk != c.Chunk {
		return violation("codec/commit-clone", "clone of %s carries (id %d, block %d)", tc, cl.ID, cl.Chunk)
	}
	if v := same("commit-clone", decodeCommit(cl)); v != nil {
		return v
	}
	f := NewSimFile()
	if _, err := c.WriteTo(f); err != nil {
		return violation("codec/commit-writeto", "Commit.WriteTo: %v", err)
	}
	var back commit.Commit
	maxChunk := []int{0, 1, 7, 300}[rng.Intn(4)]
	if maxChunk > 0 {
		w.stats.fault("read-chunking")
	}
	if _, err := back.ReadFrom(NewSimReader(f.Data, rng, maxChunk)); err != nil {
		return violation("codec/commit-readfrom", "Commit.ReadFrom of complete %s (%d bytes): %v", tc, len(f.Data), err)
	}
	if back.ID != c.ID || back.Chunk != c.Chunk {
		return violation("codec/commit-header", "%s read back as (id %d, block %d)", tc, back.ID, back.Chunk)
	}
	return same("commit-roundtrip", decodeCommit(back))
}
