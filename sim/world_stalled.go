package colsim

import (
	"fmt"
	"os"
	"sync"
	"testing"
	"testing/synctest"
	"time"

	"github.com/kelindar/column/commit"
)

// Stalled consumer (C06, C15): the change stream of the primary goes into a real
// commit.Channel with very little room, and its consumer is slow: before some of its
// receives it is away for a drawn while (a fraction of a second up to an hour). The run
// executes inside a testing/synctest bubble, so that time costs nothing: whenever the
// committing client is blocked in Channel.Append and the consumer sleeps, the fake clock
// jumps to the consumer's wake-up. The fault is the stall; the statement is that nothing is
// lost or reordered because of it: once the consumer has drained the channel, a replica
// replaying what it received equals the primary and the model.

func genStalled(prop string, seed uint64, run int) *Case {
	p := seqProfile{minSteps: 3, maxSteps: 12, wTxn: 20, wInsert: 8, wAt: 8, wRange: 2, wDelete: 3,
		pAbort: 0.1, pMerge: 0.3, maxCols: 5, multiBlock: 0.4}
	cs := genSeq(prop, seed, run, p, knownAvoid(prop, seed, run))
	cs.World = "stalled"
	r := NewRng(seed, uint64(run), 99)
	if cs.Cfg.Params == nil {
		cs.Cfg.Params = map[string]int{}
	}
	cs.Cfg.Params["chan_cap"] = []int{1, 1, 2, 8}[r.Intn(4)]
	cs.Cfg.Params["stall_every"] = []int{1, 2, 3, 5}[r.Intn(4)]
	cs.Cfg.Params["stall_ns"] = int([]time.Duration{50 * time.Millisecond, 900 * time.Millisecond, 1100 * time.Millisecond, 5 * time.Second, time.Minute, time.Hour}[r.Intn(6)])
	return cs
}

func runStalled(cs *Case) (w *World) {
	defer func() {
		if r := recover(); r != nil {
			if w == nil {
				w = newWorld(cs)
			}
			w.taint = true
			if w.viol == nil && w.incon == "" {
				w.incon = fmt.Sprintf("bubble: %v", r)
			}
		}
	}()
	synctest.Test(curT, func(t *testing.T) {
		start := time.Now()
		ch := make(commit.Channel, cs.Cfg.Params["chan_cap"])
		every, away := cs.Cfg.Params["stall_every"], time.Duration(cs.Cfg.Params["stall_ns"])
		if every <= 0 {
			every = 1
		}
		var received []commit.Commit // owned by the consumer until done is closed
		stalls := 0
		done := make(chan struct{})
		var once sync.Once
		finish := func() { once.Do(func() { close(ch); <-done }) }
		defer finish()
		w = runSeq(cs, seqOracles{dump: true,
			start: func(w *World) {
				go func() {
					defer close(done)
					n := 0
					for {
						if n%every == 0 {
							time.Sleep(away) // the stall
							stalls++
						}
						n++
						c, ok := <-ch
						if !ok {
							return
						}
						received = append(received, c)
					}
				}()
				w.tap.Sinks = append(w.tap.Sinks, loggerFunc(func(c commit.Commit) error {
					if len(ch) == cap(ch) {
						w.stats.probe("append-on-a-full-channel")
					}
					return ch.Append(c) // blocks while the channel is full
				}))
			},
			final: func(w *World) {
				finish()
				for i := 0; i < stalls; i++ {
					w.stats.fault("consumer-stall")
				}
				replica := w.newCollection(nil)
				w.prefill(replica, cs.Cfg.Prefill)
				for _, c := range received {
					if err := replica.Replay(c); err != nil {
						w.fail(violation("replica/replay-error", "Replay of commit %d returned %v", c.ID, err))
						return
					}
				}
				if len(received) != len(w.tap.Commits) {
					w.fail(violation("stalled-consumer/commits-lost", "the primary emitted %d commits, its stalled consumer (away %v before every %d. receive, channel capacity %d) received %d once it had drained the channel",
						len(w.tap.Commits), away, every, cap(ch), len(received)))
					return
				}
				if v := CompareDump(replica, w.model, cs.Cfg.KeyAlpha, nil); v != nil {
					v.Sig = "stalled-consumer/" + v.Sig
					v.Detail = fmt.Sprintf("replica fed by a stalled consumer (away %v before every %d. receive, channel capacity %d): %s", away, every, cap(ch), v.Detail)
					w.fail(v)
				}
			}})
		finish()
		w.stats.SimTimeNs = int64(time.Since(start))
	})
	return w
}

// File log (C06): the change stream of a single-client history goes into a commit log
// opened with commit.OpenFile on a real file of the run's private TMPDIR; afterwards the
// file is opened a second time, ranged over, and what it delivers is replayed on a fresh
// replica, which must equal the model. The second half of the history is logged through
// a log object opened anew on the same file after the first one was dropped (a process
// that restarts and goes on logging must first read the file to its end, which is what
// positions it for appending).
func genFileLog(prop string, seed uint64, run int) *Case {
	p := seqProfile{minSteps: 3, maxSteps: 12, wTxn: 20, wInsert: 8, wAt: 8, wRange: 2, wDelete: 3,
		pAbort: 0.1, pMerge: 0.3, maxCols: 5, multiBlock: 0.4}
	cs := genSeq(prop, seed, run, p, knownAvoid(prop, seed, run))
	cs.World = "filelog"
	return cs
}

func runFileLog(cs *Case) (w *World) {
	path := fmt.Sprintf("%s/colsim-log-%d-%d.log", os.TempDir(), cs.Seed, cs.Run)
	os.Remove(path)
	defer os.Remove(path)
	var lg *commit.Log
	var file interface{ Close() error }
	open := func(w *World, catchUp bool) bool {
		l, err := commit.OpenFile(path)
		if err != nil {
			w.fail(violation("filelog/open", "OpenFile: %v", err))
			return false
		}
		if catchUp {
			// read to the end: the file position is then where the next commit belongs
			if err := l.Range(func(commit.Commit) error { return nil }); err != nil {
				w.fail(violation("filelog/range-error", "Range over the log file before appending to it again returned %v", err))
				return false
			}
		}
		lg = l
		return true
	}
	_ = file
	half := len(cs.Steps) / 2
	step := 0
	w = runSeq(cs, seqOracles{dump: true,
		start: func(w *World) {
			if !open(w, false) {
				return
			}
			w.tap.Sinks = append(w.tap.Sinks, loggerFunc(func(c commit.Commit) error {
				if err := lg.Append(c); err != nil {
					w.fail(violation("filelog/append-error", "Append to the log file returned %v", err))
				}
				return nil
			}))
		},
		each: func(w *World) {
			step++
			if step == half && half > 0 && w.viol == nil {
				lg.Close()
				if open(w, true) {
					w.stats.probe("log-file-reopened-and-appended-to")
				}
			}
		},
		final: func(w *World) {
			lg.Close()
			rd, err := commit.OpenFile(path)
			if err != nil {
				w.fail(violation("filelog/open", "OpenFile for reading: %v", err))
				return
			}
			defer rd.Close()
			replica := w.newCollection(nil)
			w.prefill(replica, cs.Cfg.Prefill)
			n := 0
			if err := rd.Range(func(c commit.Commit) error { n++; return replica.Replay(c) }); err != nil {
				w.fail(violation("filelog/range-error", "Range over the log file returned %v after %d commits", err, n))
				return
			}
			if n != len(w.tap.Commits) {
				w.fail(violation("filelog/commit-count", "%d commits were appended to the log file, Range over it delivers %d", len(w.tap.Commits), n))
				return
			}
			if v := CompareDump(replica, w.model, cs.Cfg.KeyAlpha, nil); v != nil {
				v.Sig = "filelog/" + v.Sig
				v.Detail = "replica fed from the log file: " + v.Detail
				w.fail(v)
			}
		}})
	return w
}
