package colsim

import (
	"fmt"
	"sync"
	"testing"
	"testing/synctest"
	"time"

	"github.com/kelindar/column/commit"
)

// Stalled consumer (C06, C15): the change stream of the primary goes into a real
// commit.Channel with very little room, and its consumer is slow: before some of its
// receives it is away for a drawn while (a fraction of a second up to an hour). The run
// executes inside a testing/synctest bubble, so that time costs nothing: whenever the
// committing client is blocked in Channel.Append and the consumer sleeps, the fake clock
// jumps to the consumer's wake-up. The fault is the stall; the statement is that nothing is
// lost or reordered because of it: once the consumer has drained the channel, a replica
// replaying what it received equals the primary and the model.

func genStalled(prop string, seed uint64, run int) *Case {
	p := seqProfile{minSteps: 3, maxSteps: 12, wTxn: 20, wInsert: 8, wAt: 8, wRange: 2, wDelete: 3,
		pAbort: 0.1, pMerge: 0.3, maxCols: 5, multiBlock: 0.4}
	cs := genSeq(prop, seed, run, p, knownAvoid(prop, seed, run))
	cs.World = "stalled"
	r := NewRng(seed, uint64(run), 99)
	if cs.Cfg.Params == nil {
		cs.Cfg.Params = map[string]int{}
	}
	cs.Cfg.Params["chan_cap"] = []int{1, 1, 2, 8}[r.Intn(4)]
	cs.Cfg.Params["stall_every"] = []int{1, 2, 3, 5}[r.Intn(4)]
	cs.Cfg.Params["stall_ns"] = int([]time.Duration{50 * time.Millisecond, 900 * time.Millisecond, 1100 * time.Millisecond, 5 * time.Second, time.Minute, time.Hour}[r.Intn(6)])
	return cs
}

func runStalled(cs *Case) (w *World) {
	defer func() {
		if r := recover(); r != nil {
			if w == nil {
				w = newWorld(cs)
			}
			w.taint = true
			if w.viol == nil && w.incon == "" {
				w.incon = fmt.Sprintf("bubble: %v", r)
			}
		}
	}()
	synctest.Test(curT, func(t *testing.T) {
		start := time.Now()
		ch := make(commit.Channel, cs.Cfg.Params["chan_cap"])
		every, away := cs.Cfg.Params["stall_every"], time.Duration(cs.Cfg.Params["stall_ns"])
		if every <= 0 {
			every = 1
		}
		var received []commit.Commit // owned by the consumer until done is closed
		stalls := 0
		done := make(chan struct{})
		var once sync.Once
		finish := func() { once.Do(func() { close(ch); <-done }) }
		defer finish()
		w = runSeq(cs, seqOracles{dump: true,
			start: func(w *World) {
				go func() {
					defer close(done)
					n := 0
					for {
						if n%every == 0 {
							time.Sleep(away) // the stall
							stalls++
						}
						n++
						c, ok := <-ch
						if !ok {
							return
						}
						received = append(received, c)
					}
				}()
				w.tap.Sinks = append(w.tap.Sinks, loggerFunc(func(c commit.Commit) error {
					if len(ch) == cap(ch) {
						w.stats.probe("append-on-a-full-channel")
					}
					return ch.Append(c) // blocks while the channel is full
				}))
			},
			final: func(w *World) {
				finish()
				for i := 0; i < stalls; i++ {
					w.stats.fault("consumer-stall")
				}
				replica := w.newCollection(nil)
				w.prefill(replica, cs.Cfg.Prefill)
				for _, c := range received {
					if err := replica.Replay(c); err != nil {
						w.fail(violation("replica/replay-error", "Replay of commit %d returned %v", c.ID, err))
						return
					}
				}
				if len(received) != len(w.tap.Commits) {
					w.fail(violation("stalled-consumer/commits-lost", "the primary emitted %d commits, its stalled consumer (away %v before every %d. receive, channel capacity %d) received %d once it had drained the channel",
						len(w.tap.Commits), away, every, cap(ch), len(received)))
					return
				}
				if v := CompareDump(replica, w.model, cs.Cfg.KeyAlpha, nil); v != nil {
					v.Sig = "stalled-consumer/" + v.Sig
					v.Detail = fmt.Sprintf("replica fed by a stalled consumer (away %v before every %d. receive, channel capacity %d): %s", away, every, cap(ch), v.Detail)
					w.fail(v)
				}
			}})
		finish()
		w.stats.SimTimeNs = int64(time.Since(start))
	})
	return w
}
