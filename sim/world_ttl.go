package colsim

import (
	"fmt"
	"testing"
	"testing/synctest"
	"time"

	"github.com/kelindar/column"
	"github.com/kelindar/column/commit"
)

// curT is the *testing.T of the worker entry point (synctest.Test needs one).
var curT *testing.T

// ttlState is the bookkeeping of the C17 world.
type ttlState struct {
	interval  time.Duration
	passStart time.Time // fake time at which the current/last vacuum pass started
	passSeq   uint64    // event sequence number at that moment
	passes    int
	inPass    bool
	// per row: event sequence number at which the current deadline became visible (its
	// commit released the block latch), and whether the workload deleted the row itself
	deadlineSeq map[uint32]uint64
	start       time.Time
	removed     int
	pendingTTL  int // in-flight client transactions that issued a SetTTL/Extend or an insert
	// offsets that held a live row with a passed deadline at some moment of the current
	// pass: only these can be removed by the cleanup's stale decision (the known finding)
	expiredInPass map[uint32]bool
	vCommitting   map[uint32]bool // blocks whose markers the cleanup has applied but not yet emitted
	earlyRemoved  map[uint32]bool // rows judged as removed before the cleanup's commit was emitted
}

// runTTL executes a C17 case inside a testing/synctest bubble: the collection's own vacuum
// goroutine runs on the fake clock and becomes one more simulated thread; only the
// scheduler advances time.
func runTTL(cs *Case) (w *World) {
	defer func() {
		if r := recover(); r != nil {
			// the end-of-bubble deadlock panic (goroutines left parked after an aborted run)
			if w == nil {
				w = newWorld(cs)
			}
			w.taint = true
			if w.viol == nil && w.incon == "" {
				w.incon = fmt.Sprintf("bubble: %v", r)
			}
		}
	}()
	synctest.Test(curT, func(t *testing.T) {
		w = runTTLInBubble(cs)
	})
	return w
}

func runTTLInBubble(cs *Case) (w *World) {
	w = newWorld(cs)
	curWorld = w
	st := &concState{own: map[int][]uint32{}, perBlock: map[uint32][]*blockCommit{}, cur: map[int]map[uint32]*blockCommit{},
		committedBlocks: map[*MTxn]map[uint32]bool{}, emitted: map[*MTxn]map[uint32]int{}, txnOf: map[int]*MTxn{}}
	w.conc = st
	tt := &ttlState{interval: time.Duration(cs.Cfg.Params["vacuum_ns"]), deadlineSeq: map[uint32]uint64{}, start: time.Now(),
		expiredInPass: map[uint32]bool{}, vCommitting: map[uint32]bool{}, earlyRemoved: map[uint32]bool{}}
	w.ttl = tt
	commit.SimSetID(1000)
	w.tap = &Tap{w: w}
	var emitted []commit.Commit
	w.tap.onAppend = func(tc *TapCommit, c commit.Commit) {
		emitted = append(emitted, c.Clone())
		w.onVacuumCommit(tc)
	}
	defer func() {
		curWorld = nil
		w.close()
		if w.sim != nil {
			w.stats.Steps = w.sim.steps
			w.stats.Choices = w.sim.choices
			w.stats.Ilv = uint64(w.sim.ilv)
			w.stats.Trace = uint64(w.sim.trace.add(w.model.stateHash()).add(uint64(len(w.tap.Commits))).add(uint64(time.Since(tt.start))))
			w.stats.Hooks = map[string]int{}
			for k, n := range w.sim.hits {
				if n > 0 {
					w.stats.Hooks[pointName[uint8(k)]] += n
				}
			}
		}
		w.stats.SimTimeNs = int64(time.Since(tt.start))
	}()
	// the primary runs its real vacuum goroutine on the fake clock
	c := column.NewCollection(column.Options{Capacity: cs.Cfg.Capacity, Vacuum: tt.interval, Writer: w.tap})
	for _, col := range w.model.Cols {
		if col.Name != "expire" {
			if err := c.CreateColumn(col.Name, makeColumn(col)); err != nil {
				panic(err)
			}
		}
	}
	w.colls = append(w.colls, c)
	w.primary = c
	w.prefill(w.primary, cs.Cfg.Prefill)
	prefillModel(w.model, cs.Cfg.Prefill)
	if ns := cs.Cfg.Params["ttl_full_ns"]; ns > 0 && cs.Cfg.Prefill != nil {
		w.prefillDeadlines(c, cs.Cfg.Prefill, tt.start.Add(time.Duration(ns)))
	}
	w.sim = NewSim(NewRng(cs.SchedSeed, 3), cs.Strategy, cs.Sched)
	if cs.Sched == nil {
		w.sim.replay = nil
	}
	w.sim.bubble = true
	w.sim.inspecting = true
	w.hookFn = w.concHook
	w.sim.onForeign = func(t *Thread, wasIdle bool) {
		if wasIdle {
			tt.passStart = time.Now()
			w.seq++
			tt.passSeq = w.seq
			tt.inPass = true
			tt.passes++
			tt.expiredInPass = map[uint32]bool{}
			w.noteExpired()
		}
	}
	w.sim.gate = func(t *Thread) bool {
		// known finding "the cleanup decides in its callback and deletes at commit": unless
		// this run explores it, a pass starts only while no time-to-live write is in flight
		// (and none is issued while a pass is in progress, see writes())
		if t.foreign && t.atPassStart && w.avoid["ttl-change-during-pass"] {
			return tt.pendingTTL == 0
		}
		return true
	}
	w.sim.afterStep = func(t *Thread) {
		w.noteExpired()
		if dbgStep != nil {
			dbgStep(w, t)
		}
	}
	w.sim.onIdle = func(t *Thread) {
		tt.inPass = false
		w.stats.probe("vacuum-pass-completed")
		w.afterVacuumPass()
	}
	// set-up: stable rows (no TTL yet), on the scheduler goroutine
	for i := range cs.Steps {
		if cs.Steps[i].Kind == "txn" {
			w.runTxn(cs.Steps[i].Txn, true)
		}
	}
	st.stable = w.model.Live()
	w.sim.inspecting = false

	for ti := range cs.Threads {
		tp := &cs.Threads[ti]
		switch tp.Role {
		case "writer", "reader":
			w.sim.Go(fmt.Sprintf("%s%d", tp.Role, ti), func(t *Thread) {
				for xi := range tp.Txns {
					if w.stopped() {
						break
					}
					w.runConcTxn(t, &tp.Txns[xi])
					w.sim.Yield(ptTxnEdge)
				}
			})
		case "failsnap":
			w.sim.GoRole("snapshot", fmt.Sprintf("failsnap%d", ti), func(t *Thread) {
				for k := 0; k < tp.Arg; k++ {
					w.sim.Yield(ptTxnEdge)
				}
				f := NewSimFile()
				f.Plan = WritePlan{FailAtCall: 1, FailAtByte: -1}
				err := w.primary.Snapshot(f)
				w.stats.fault("snapshot-write-fault-beside-cleanup")
				if err == nil && f.Fired > 0 {
					w.fail(violation("snapshot-fault/unreported", "the destination writer failed but Snapshot returned nil"))
				}
			})
		case "clock":
			advances := tp.Arg
			rng := NewRng(cs.SchedSeed, uint64(ti), 17)
			ct := w.sim.Go("clock", nil)
			ct.pt = Point{Kind: ptClock}
			ct.started = true
			ct.inline = func() bool {
				w.advanceClock(rng)
				advances--
				return advances > 0
			}
		}
	}
	err := w.sim.Run()
	switch e := err.(type) {
	case nil:
	case *PanicError:
		w.taint = true
		w.fail(violation("panic/"+e.At, "%v", e))
	case *DeadlockError:
		w.taint = true
		w.incon = "deadlock"
	case *HangError:
		w.taint = true
		w.incon = "hang"
	}
	if w.viol != nil || w.incon != "" {
		return w
	}
	if w.sim.drain {
		w.incon = "step-cap"
		return w
	}
	// final phase: faults (clock jumps) have stopped; every row whose deadline passed must
	// be gone within a bounded number of cleanup passes
	for i := 0; i < 3 && w.viol == nil; i++ {
		w.advanceBy(tt.interval + tt.interval/3)
		if err := w.sim.Run(); err != nil { // lets the vacuum run to its ticker
			w.incon = "hang"
			return w
		}
	}
	if w.viol != nil {
		return w
	}
	w.sim.inspecting = true
	w.stats.Dumps++
	now := time.Now()
	for off, r := range w.model.Rows {
		if d, ok := r["expire"]; ok && d.U != 0 && time.Unix(0, int64(d.U)).Before(now.Add(-3*tt.interval)) {
			w.fail(violation("ttl/not-expired", "row %d: deadline passed %v ago (cleanup interval %v, %d passes ran) but the row is still live", off, now.Sub(time.Unix(0, int64(d.U))), tt.interval, tt.passes))
			return w
		}
	}
	if v := CompareDump(w.primary, w.model, nil, nil); v != nil {
		v.Detail = "primary at the end: " + v.Detail
		w.fail(v)
		return w
	}
	// the deadline survives replication and snapshot/restore
	replica := w.newCollection(nil)
	for _, c := range emitted {
		if err := replica.Replay(c); err != nil {
			w.fail(violation("ttl/replay-error", "%v", err))
			return w
		}
	}
	if v := CompareDump(replica, w.model, nil, nil); v != nil {
		v.Sig = "ttl/replica/" + v.Sig
		v.Detail = "replica fed the change stream (incl. the vacuum's deletions): " + v.Detail
		w.fail(v)
		return w
	}
	f := NewSimFile()
	if err := w.primary.Snapshot(f); err != nil {
		w.fail(violation("snapshot-error", "%v", err))
		return w
	}
	fresh := w.newCollection(nil)
	if err := fresh.Restore(NewSimReader(f.Data, nil, 0)); err != nil {
		w.fail(violation("restore-error", "%v", err))
		return w
	}
	if v := CompareDump(fresh, w.model, nil, nil); v != nil {
		v.Sig = "ttl/restored/" + v.Sig
		v.Detail = "restored collection: " + v.Detail
		w.fail(v)
		return w
	}
	if v := w.restoredExpiry(); v != nil {
		w.fail(v)
		return w
	}
	w.stats.EndState = w.model.stateHash()
	w.stats.Nontrivial = tt.passes > 0 && w.stats.Commits > 0
	return w
}

// prefillDeadlines gives every row of the blocks a prefill keeps full the same far deadline,
// in the collection (one hand-built commit per block) and in the model.
func (w *World) prefillDeadlines(c *column.Collection, p *Prefill, at time.Time) {
	for _, b := range p.KeepFull {
		buf := commit.NewBuffer(1 << 14)
		buf.Reset("expire")
		for i := uint32(0); i < 1<<14; i++ {
			off := uint32(b)<<14 + i
			if r, ok := w.model.Rows[off]; ok {
				buf.PutInt64(commit.Put, off, at.UnixNano())
				r["expire"] = MVal{U: uint64(at.UnixNano())}
				w.model.touch(off, "expire")
			}
		}
		if err := c.Replay(commit.Commit{ID: 995 + uint64(b), Chunk: commit.Chunk(b), Updates: []*commit.Buffer{buf}}); err != nil {
			panic(err)
		}
	}
	w.stats.probe("ttl-full-block-ahead")
}

// restoredExpiry checks that deadlines not only survive snapshot/restore but are acted on:
// up to three live rows get a short time-to-live on the primary, the primary is snapshotted
// at once and restored into a fresh collection that runs its own cleanup on the fake clock
// and never sees a local time-to-live write; after a few intervals exactly the rows whose
// deadline passed must be gone from it.
func (w *World) restoredExpiry() *Violation {
	tt := w.ttl
	live := w.model.Live()
	if len(live) == 0 {
		return nil
	}
	short := map[uint32]bool{}
	for i, off := range live {
		if i >= 3 {
			break
		}
		off := off
		short[off] = true
		if err := w.primary.QueryAt(off, func(r column.Row) error {
			r.SetTTL(tt.interval / 2)
			return nil
		}); err != nil {
			return violation("query-result", "%v", err)
		}
	}
	f := NewSimFile()
	if err := w.primary.Snapshot(f); err != nil {
		return violation("snapshot-error", "%v", err)
	}
	fresh := column.NewCollection(column.Options{Capacity: w.cs.Cfg.Capacity, Vacuum: tt.interval})
	w.colls = append(w.colls, fresh)
	for _, col := range w.model.Cols {
		if col.Name != "expire" {
			if err := fresh.CreateColumn(col.Name, makeColumn(col)); err != nil {
				panic(err)
			}
		}
	}
	if err := fresh.Restore(NewSimReader(f.Data, nil, 0)); err != nil {
		return violation("restore-error", "%v", err)
	}
	time.Sleep(4*tt.interval + tt.interval/2)
	synctest.Wait()
	now := time.Now()
	got := map[uint32]bool{}
	for _, off := range liveOffsets(fresh) {
		got[off] = true
	}
	for _, off := range live {
		d, has := w.model.Get(off, "expire")
		overdue := short[off] || (has && d.U != 0 && time.Unix(0, int64(d.U)).Before(now.Add(-3*tt.interval)))
		future := !short[off] && (!has || d.U == 0 || time.Unix(0, int64(d.U)).After(now))
		switch {
		case overdue && got[off]:
			return violation("ttl/restored-not-expired", "row %d of a restored collection (cleanup interval %v, no local time-to-live write) is still live %v after its restored deadline passed", off, tt.interval, 4*tt.interval)
		case future && !got[off]:
			return violation("ttl/restored-removed-early", "row %d of a restored collection was removed although it has no deadline in the past", off)
		}
	}
	w.stats.probe("restored-collection-expired-its-rows")
	return nil
}

// advanceClock is the clock pseudo-thread's step: a seeded jump placed relative to the
// cleanup interval (just before / exactly at / just after a tick, small and large jumps).
func (w *World) advanceClock(rng *Rng) {
	i := w.ttl.interval
	var d time.Duration
	switch rng.Intn(8) {
	case 0:
		d = i - 1
	case 1:
		d = i
	case 2:
		d = i + 1
	case 3:
		d = i / 3
	case 4:
		d = i/2 + 1
	case 5:
		d = 3*i + 7
	case 6:
		d = time.Duration(rng.Range(1, 1000)) * time.Microsecond
	default:
		d = time.Duration(rng.Range(1, int(2*i/time.Microsecond)+1)) * time.Microsecond
	}
	w.advanceBy(d)
}

func (w *World) advanceBy(d time.Duration) {
	if d <= 0 {
		d = 1
	}
	w.stats.fault("clock-advance")
	if d >= 2*w.ttl.interval {
		w.stats.fault("clock-jump-over-several-ticks")
	}
	// every simulated thread is parked (durably blocked): the fake clock runs to the end
	// of this sleep; a tick on the way wakes the vacuum, which parks at its first hook
	time.Sleep(d)
	synctest.Wait()
}

// noteExpired records the rows that are live with a passed deadline right now.
func (w *World) noteExpired() {
	tt := w.ttl
	if !tt.inPass {
		return
	}
	now := time.Now()
	for off := range tt.deadlineSeq { // every row that ever got a deadline committed
		if d, ok := w.model.Get(off, "expire"); ok && d.U != 0 && time.Unix(0, int64(d.U)).Before(now) {
			tt.expiredInPass[off] = true
		}
	}
}

// vacuumRemoves judges one row deletion of the cleanup and applies it to the model.
func (w *World) vacuumRemoves(off uint32) {
	tt := w.ttl
	now := time.Now()
	r, live := w.model.Rows[off]
	stale := tt.expiredInPass[off] // the pass may have read it while it was overdue
	class := func(sig string) string {
		if !stale {
			return "ttl/removed-never-expired" // not explainable by a stale decision of this pass
		}
		return sig
	}
	if !live {
		if _, reserved := w.model.Reserved[off]; reserved {
			w.fail(violation(class("ttl/removed-inflight-insert"), "cleanup pass started at +%v deleted offset %d which is reserved by an uncommitted insert", tt.passStart.Sub(tt.start), off))
		}
		return // already deleted by the workload: deleting it again changes nothing
	}
	d, has := r["expire"]
	switch {
	case !has || d.U == 0:
		w.fail(violation(class("ttl/removed-without-ttl"), "cleanup pass started at +%v removed row %d which has no time-to-live", tt.passStart.Sub(tt.start), off))
		return
	case time.Unix(0, int64(d.U)).After(now):
		w.fail(violation(class("ttl/removed-before-deadline"), "cleanup pass started at +%v removed row %d at +%v although its deadline is +%v", tt.passStart.Sub(tt.start), off, now.Sub(tt.start), time.Unix(0, int64(d.U)).Sub(tt.start)))
		return
	}
	delete(w.model.Rows, off)
	tt.removed++
	w.stats.probe("row-expired")
}

// onVacuumCommit is the safety oracle: the tap sees every commit of the vacuum goroutine
// inside the block latch; each row it deletes must be live, hold a deadline, and that
// deadline must lie in the past.
func (w *World) onVacuumCommit(tc *TapCommit) {
	if w.sim == nil || w.sim.vacuum == nil || tc.Thread != w.sim.vacuum.ID || w.sim.cur != w.sim.vacuum {
		return
	}
	for _, b := range tc.Bufs {
		if b.Col != "row" {
			continue
		}
		for _, op := range b.Ops {
			if op.Type != commit.Delete || w.viol != nil {
				continue
			}
			if w.ttl.earlyRemoved[op.Off] {
				delete(w.ttl.earlyRemoved, op.Off)
				continue // judged when the library handed the freed offset to an insert
			}
			w.vacuumRemoves(op.Off)
		}
	}
}

// afterVacuumPass is the bounded-liveness oracle, evaluated when the vacuum is back at its
// ticker: a row whose deadline had passed, and was visible, before the pass started must
// be gone now.
func (w *World) afterVacuumPass() {
	tt := w.ttl
	for off, r := range w.model.Rows {
		d, ok := r["expire"]
		if !ok || d.U == 0 {
			continue
		}
		if time.Unix(0, int64(d.U)).Before(tt.passStart) && tt.deadlineSeq[off] < tt.passSeq && tt.deadlineSeq[off] != 0 {
			w.fail(violation("ttl/survived-pass", "row %d: deadline +%v had passed and was committed before the cleanup pass that started at +%v, yet the row survived that pass", off, time.Unix(0, int64(d.U)).Sub(tt.start), tt.passStart.Sub(tt.start)))
			return
		}
	}
}

var dbgStep func(w *World, t *Thread)
