#!/usr/bin/env python3
"""One-shot helper that inserted the verif hook call lines into /repo (kept for the record).
Preserves each file's line ending (many files are CRLF). Add-only: never rewrites a line."""
import sys, re
def patch(path, inserts):
    data = open(path, 'rb').read()
    eol = b'\r\n' if b'\r\n' in data else b'\n'
    lines = data.split(eol)
    out = []
    used = [0]*len(inserts)
    for ln in lines:
        s = ln.decode()
        for i,(anchor, where, new, nth) in enumerate(inserts):
            pass
        out.append(ln)
    # simple sequential approach: process inserts one by one on the list
    lines = [l.decode() for l in lines]
    for (anchor, where, new, nth) in inserts:
        hits = [i for i,l in enumerate(lines) if l.strip() == anchor.strip()]
        if not hits: raise SystemExit(f"{path}: anchor not found: {anchor!r}")
        idxs = hits if nth is None else [hits[nth]]
        for k, i in enumerate(sorted(idxs, reverse=True)):
            indent = re.match(r'\s*', lines[i]).group(0)
            nl = indent + new
            if where == 'before': lines.insert(i, nl)
            else: lines.insert(i+1, nl)
    open(path, 'wb').write(eol.join(l.encode() for l in lines))

R = '/repo/'
patch(R+'txn_lock.go', [
    ('lock.RLock(uint(chunk))', 'before', 'simYield(txn.owner, simBeforeRLock, uint32(chunk))', None),
    ('lock.Lock(uint(chunk))', 'before', 'simYield(txn.owner, simBeforeLock, uint32(chunk))', None),
    ('lock.Unlock(uint(chunk))', 'after', 'simYield(txn.owner, simAfterUnlock, uint32(chunk))', None),
])
patch(R+'txn.go', [
    ('lock.RLock(uint(chunk))', 'before', 'simYield(txn.owner, simBeforeRLock, uint32(chunk))', None),
    ('idx := txn.owner.next()', 'after', 'simYield(txn.owner, simAfterReserve, idx)', None),
    ('// If not found, insert at a new index', 'before', 'simYield(txn.owner, simKeyChecked, 0)', None),
    ('// Attemp to update, if nothing was changed we\'re done', 'before', 'simYield(txn.owner, simMidCommit, uint32(chunk))', None),
    ('// If there is a pending snapshot, append commit into a temp log', 'before', 'simYield(txn.owner, simMidCommit, uint32(chunk))', None),
    ('// Range through all of the computed columns and apply the final state updates.', 'before', 'simYield(txn.owner, simMidCommit, uint32(chunk))', None),
])
patch(R+'snapshot.go', [
    ('c.slock.RLock(uint(chunk))', 'before', 'simYield(c, simBeforeRLock, uint32(chunk))', None),
    ('// Take a snapshot of the current state', 'before', 'simYield(c, simSnapshotPhase, 1)', None),
    ('// Close the recorder', 'before', 'simYield(c, simSnapshotPhase, 2)', None),
    ('return recorder.Copy(dst)', 'before', 'simYield(c, simSnapshotPhase, 3)', None),
])
