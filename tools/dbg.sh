#!/bin/sh
# Debug aid: run runs [FROM,TO) of one property in a single worker with NO known-findings file,
# so every violation is minimised and written as a replay file under .work/dbg/replays.
#   tools/dbg.sh <PROP> <FROM> <TO> [seed]      (env: COLSIM_ALLOW, VERIF_REPO, RACE=1)
cd "$(dirname "$0")/.."
export GOFLAGS=-mod=mod GOPROXY=off GOSUMDB=off GOTOOLCHAIN=local
W=$PWD/.work/dbg; mkdir -p $W/replays $W/tmp
sed "s#=> /repo#=> ${VERIF_REPO:-/repo}#" sim/go.mod > $W/go.mod; cp sim/go.sum $W/go.sum
(cd sim && go1.26.8 test -c -tags verif ${RACE:+-race} -modfile $W/go.mod -o $W/colsim.test .) || exit 2
cd $W && COLSIM_PROP=$1 COLSIM_TIER=quick COLSIM_SEED=${4:-1} COLSIM_FROM=$2 COLSIM_TO=$3 COLSIM_REPLAYDIR=$W/replays COLSIM_MINBUDGET=${COLSIM_MINBUDGET:-20} \
  COLSIM_MAXVIOL=${COLSIM_MAXVIOL:-1} COLSIM_OUT=$W/out.json TMPDIR=$W/tmp GOMAXPROCS=1 ./colsim.test -test.run '^TestWorker$' -test.timeout 0 >/dev/null 2>$W/err.txt; python3 -c "
import json,sys
r=json.load(open('$W/out.json'))
print('runs',r['runs'],'nontrivial',r['nontrivial'],'stopped',r.get('stopped'))
for v in r['violations']: print(v['sig'],'run',v['run'],'triggers',v['triggers'],'\n  ',v['detail'][:600],'\n  replay',v['replay'])
"
