module instr

go 1.26
