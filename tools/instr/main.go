// instr rewrites a scratch copy of kelindar/column so that the simulator gets a scheduling
// point before EVERY lock acquisition, wherever it is written:
//
//	X.Lock() / X.RLock()            (no argument: sync.Mutex / sync.RWMutex)
//	    => simMuYield(&X, 1|0); X.Lock()
//	L.Lock(n) / L.RLock(n)          (one argument: the sharded block latch)
//	    => simLatchYield(L, n, 1|0); L.Lock(n)      unless a simYield(...) call directly precedes it
//
// Nothing else is changed. The helper functions are added as zz_simmu.go to each rewritten
// package; they call hook variables that the simulator sets (nil = no-op). The rewrite works
// on syntax alone, so lock sites added or moved by a change to the repository are covered
// without anybody having to place a hook there.
//
// usage: instr <dir of the scratch copy>
package main

import (
	"bytes"
	"fmt"
	"go/ast"
	"go/format"
	"go/parser"
	"go/token"
	"os"
	"path/filepath"
	"strings"
)

var sites, latchSites int

func addressable(e ast.Expr) bool {
	switch x := e.(type) {
	case *ast.Ident:
		return true
	case *ast.SelectorExpr:
		return addressable(x.X)
	case *ast.IndexExpr:
		return addressable(x.X)
	case *ast.StarExpr:
		return true
	case *ast.ParenExpr:
		return addressable(x.X)
	}
	return false
}

// lockCall recognises `recv.Lock(args...)` / `recv.RLock(args...)` used as a statement.
func lockCall(s ast.Stmt) (recv ast.Expr, args []ast.Expr, write, ok bool) {
	es, isExpr := s.(*ast.ExprStmt)
	if !isExpr {
		return
	}
	call, isCall := es.X.(*ast.CallExpr)
	if !isCall {
		return
	}
	sel, isSel := call.Fun.(*ast.SelectorExpr)
	if !isSel || (sel.Sel.Name != "Lock" && sel.Sel.Name != "RLock") {
		return
	}
	return sel.X, call.Args, sel.Sel.Name == "Lock", true
}

func isSimYield(s ast.Stmt) bool {
	es, ok := s.(*ast.ExprStmt)
	if !ok {
		return false
	}
	call, ok := es.X.(*ast.CallExpr)
	if !ok {
		return false
	}
	id, ok := call.Fun.(*ast.Ident)
	if !ok || id.Name != "simYield" || len(call.Args) < 2 {
		return false
	}
	p, ok := call.Args[1].(*ast.Ident)
	return ok && (p.Name == "simBeforeRLock" || p.Name == "simBeforeLock")
}

func lit(b bool, pos token.Pos) ast.Expr {
	if b {
		return &ast.BasicLit{Kind: token.INT, Value: "1", ValuePos: pos}
	}
	return &ast.BasicLit{Kind: token.INT, Value: "0", ValuePos: pos}
}

// call builds `name(args...)` positioned at pos, so that the printer keeps the comments of
// the file where they were.
func call(name string, pos token.Pos, args ...ast.Expr) ast.Stmt {
	return &ast.ExprStmt{X: &ast.CallExpr{Fun: &ast.Ident{Name: name, NamePos: pos}, Lparen: pos, Args: args, Rparen: pos}}
}

func rewriteList(list []ast.Stmt) []ast.Stmt {
	var out []ast.Stmt
	for i, s := range list {
		if recv, args, write, ok := lockCall(s); ok {
			switch {
			case len(args) == 0 && addressable(recv):
				sites++
				out = append(out, call("simMuYield", s.Pos(), &ast.UnaryExpr{Op: token.AND, OpPos: s.Pos(), X: recv}, lit(write, s.Pos())))
			case len(args) == 1 && !(i > 0 && isSimYield(list[i-1])):
				latchSites++
				out = append(out, call("simLatchYield", s.Pos(), recv, args[0], lit(write, s.Pos())))
			}
		}
		out = append(out, s)
	}
	return out
}

var poolSites int

// rewritePools turns every mention of the type sync.Pool into simpool.Pool, a LIFO free
// list with the same Get/Put/New surface that the rewrite adds to the scratch copy as
// internal/simpool. sync.Pool hands out objects depending on the collector's timing and, in
// race builds, drops a random quarter of the Puts, which would make a run that depends on
// pooled objects (a transaction released twice, a page not reset) unrepeatable; the free
// list makes such a run a pure function of the schedule.
func rewritePools(f *ast.File, module string) {
	pools, others := 0, 0
	ast.Inspect(f, func(n ast.Node) bool {
		sel, ok := n.(*ast.SelectorExpr)
		if !ok {
			return true
		}
		if id, ok := sel.X.(*ast.Ident); ok && id.Name == "sync" && id.Obj == nil {
			if sel.Sel.Name == "Pool" {
				id.Name = "simpool"
				pools++
			} else {
				others++
			}
		}
		return true
	})
	if pools == 0 {
		return
	}
	poolSites += pools
	for _, d := range f.Decls {
		gd, ok := d.(*ast.GenDecl)
		if !ok || gd.Tok != token.IMPORT {
			continue
		}
		var kept []ast.Spec
		for _, sp := range gd.Specs {
			if is := sp.(*ast.ImportSpec); is.Path.Value == `"sync"` && others == 0 {
				continue // nothing else of package sync is used in this file any more
			}
			kept = append(kept, sp)
		}
		kept = append(kept, &ast.ImportSpec{Name: ast.NewIdent("simpool"), Path: &ast.BasicLit{Kind: token.STRING, Value: `"` + module + `/internal/simpool"`}})
		gd.Specs = kept
		if gd.Lparen == token.NoPos {
			gd.Lparen = gd.Pos() // force the parenthesised form
			gd.Rparen = gd.End()
		}
		break
	}
}

const simpoolRaceSrc = `//go:build race

// Package simpool is added to a scratch copy of the repository by /verif/tools/instr.
package simpool

import "sync/atomic"

// Pool has the surface of sync.Pool (Get, Put, New) and is a plain LIFO free list. Race
// build: the simulator runs one thread at a time, so the list needs no lock; a lock would
// order every Put before every later Get for the race detector. Like sync.Pool it orders
// only the Put of an object before the Get that returns that very object (one atomic box
// per stored object).
type Pool struct {
	items []*box
	New   func() any
}

type box struct{ v atomic.Value }

//go:norace
func (p *Pool) Get() any {
	if n := len(p.items); n > 0 {
		b := p.items[n-1]
		p.items[n-1] = nil
		p.items = p.items[:n-1]
		return b.v.Load()
	}
	if p.New != nil {
		return p.New()
	}
	return nil
}

//go:norace
func (p *Pool) Put(x any) {
	if x == nil {
		return
	}
	b := new(box)
	b.v.Store(x)
	p.items = append(p.items, b)
}
`

const simpoolSrc = `//go:build !race

// Package simpool is added to a scratch copy of the repository by /verif/tools/instr.
package simpool

import "sync"

// Pool has the surface of sync.Pool (Get, Put, New) and is a plain LIFO free list: what it
// hands out depends on the order of the calls only.
type Pool struct {
	mu    sync.Mutex
	items []any
	New   func() any
}

func (p *Pool) Get() any {
	p.mu.Lock()
	if n := len(p.items); n > 0 {
		x := p.items[n-1]
		p.items[n-1] = nil
		p.items = p.items[:n-1]
		p.mu.Unlock()
		return x
	}
	p.mu.Unlock()
	if p.New != nil {
		return p.New()
	}
	return nil
}

func (p *Pool) Put(x any) {
	p.mu.Lock()
	p.items = append(p.items, x)
	p.mu.Unlock()
}
`

var module = "github.com/kelindar/column"

func rewriteFile(path string) error {
	fset := token.NewFileSet()
	src, err := os.ReadFile(path)
	if err != nil {
		return err
	}
	src = bytes.ReplaceAll(src, []byte("\r\n"), []byte("\n"))
	f, err := parser.ParseFile(fset, path, src, parser.ParseComments)
	if err != nil {
		return err
	}
	before := sites + latchSites + poolSites
	rewritePools(f, module)
	ast.Inspect(f, func(n ast.Node) bool {
		switch x := n.(type) {
		case *ast.BlockStmt:
			x.List = rewriteList(x.List)
		case *ast.CaseClause:
			x.Body = rewriteList(x.Body)
		case *ast.CommClause:
			x.Body = rewriteList(x.Body)
		}
		return true
	})
	if sites+latchSites+poolSites == before {
		return nil
	}
	var buf bytes.Buffer
	if err := format.Node(&buf, fset, f); err != nil {
		return err
	}
	return os.WriteFile(path, buf.Bytes(), 0o644)
}

const helperRoot = `package column

import "github.com/kelindar/smutex"

// SimMuHook is called before every sync.Mutex / sync.RWMutex acquisition of this package
// (inserted by /verif/tools/instr into a scratch copy; never part of the repository).
var SimMuHook func(mu any, write bool)

func simMuYield(mu any, write int) {
	if SimMuHook != nil {
		SimMuHook(mu, write == 1)
	}
}

func simLatchYield(l *smutex.SMutex128, shard uint, write int) {
	if SimHook != nil {
		p := simBeforeRLock
		if write == 1 {
			p = simBeforeLock
		}
		SimHook(nil, l, p, uint32(shard))
	}
}
`

const helperOther = `package %s

// SimMuHook is called before every sync.Mutex / sync.RWMutex acquisition of this package
// (inserted by /verif/tools/instr into a scratch copy; never part of the repository).
var SimMuHook func(mu any, write bool)

func simMuYield(mu any, write int) {
	if SimMuHook != nil {
		SimMuHook(mu, write == 1)
	}
}
`

func main() {
	if len(os.Args) != 2 {
		fmt.Fprintln(os.Stderr, "usage: instr <dir>")
		os.Exit(2)
	}
	root := os.Args[1]
	if b, err := os.ReadFile(filepath.Join(root, "go.mod")); err == nil {
		for _, l := range strings.Split(string(b), "\n") {
			if f := strings.Fields(l); len(f) == 2 && f[0] == "module" {
				module = f[1]
			}
		}
	}
	if err := os.MkdirAll(filepath.Join(root, "internal", "simpool"), 0o755); err == nil {
		err = os.WriteFile(filepath.Join(root, "internal", "simpool", "pool.go"), []byte(simpoolSrc), 0o644)
		if err == nil {
			err = os.WriteFile(filepath.Join(root, "internal", "simpool", "pool_race.go"), []byte(simpoolRaceSrc), 0o644)
		}
		if err != nil {
			fmt.Fprintln(os.Stderr, err)
			os.Exit(2)
		}
	}
	for _, pkg := range []struct{ dir, name string }{{".", "column"}, {"commit", "commit"}} {
		dir := filepath.Join(root, pkg.dir)
		ents, err := os.ReadDir(dir)
		if err != nil {
			fmt.Fprintln(os.Stderr, err)
			os.Exit(2)
		}
		for _, e := range ents {
			n := e.Name()
			if e.IsDir() || !strings.HasSuffix(n, ".go") || strings.HasSuffix(n, "_test.go") || strings.HasPrefix(n, "zz_simmu") {
				continue
			}
			if err := rewriteFile(filepath.Join(dir, n)); err != nil {
				fmt.Fprintln(os.Stderr, "instr:", err)
				os.Exit(2)
			}
		}
		helper := helperRoot
		if pkg.name != "column" {
			helper = fmt.Sprintf(helperOther, pkg.name)
		}
		if err := os.WriteFile(filepath.Join(dir, "zz_simmu.go"), []byte(helper), 0o644); err != nil {
			fmt.Fprintln(os.Stderr, err)
			os.Exit(2)
		}
	}
	fmt.Printf("instr: %d mutex sites, %d latch sites without a preceding hook, %d sync.Pool mentions\n", sites, latchSites, poolSites)
}
