// instr rewrites a scratch copy of kelindar/column so that the simulator gets a scheduling
// point before EVERY lock acquisition, wherever it is written:
//
//	X.Lock() / X.RLock()            (no argument: sync.Mutex / sync.RWMutex)
//	    => simMuYield(&X, 1|0); X.Lock()
//	L.Lock(n) / L.RLock(n)          (one argument: the sharded block latch)
//	    => simLatchYield(L, n, 1|0); L.Lock(n)      unless a simYield(...) call directly precedes it
//
// Nothing else is changed. The helper functions are added as zz_simmu.go to each rewritten
// package; they call hook variables that the simulator sets (nil = no-op). The rewrite works
// on syntax alone, so lock sites added or moved by a change to the repository are covered
// without anybody having to place a hook there.
//
// usage: instr <dir of the scratch copy>
package main

import (
	"bytes"
	"fmt"
	"go/ast"
	"go/format"
	"go/parser"
	"go/token"
	"os"
	"path/filepath"
	"strings"
)

var sites, latchSites int

func addressable(e ast.Expr) bool {
	switch x := e.(type) {
	case *ast.Ident:
		return true
	case *ast.SelectorExpr:
		return addressable(x.X)
	case *ast.IndexExpr:
		return addressable(x.X)
	case *ast.StarExpr:
		return true
	case *ast.ParenExpr:
		return addressable(x.X)
	}
	return false
}

// lockCall recognises `recv.Lock(args...)` / `recv.RLock(args...)` used as a statement.
func lockCall(s ast.Stmt) (recv ast.Expr, args []ast.Expr, write, ok bool) {
	es, isExpr := s.(*ast.ExprStmt)
	if !isExpr {
		return
	}
	call, isCall := es.X.(*ast.CallExpr)
	if !isCall {
		return
	}
	sel, isSel := call.Fun.(*ast.SelectorExpr)
	if !isSel || (sel.Sel.Name != "Lock" && sel.Sel.Name != "RLock") {
		return
	}
	return sel.X, call.Args, sel.Sel.Name == "Lock", true
}

func isSimYield(s ast.Stmt) bool {
	es, ok := s.(*ast.ExprStmt)
	if !ok {
		return false
	}
	call, ok := es.X.(*ast.CallExpr)
	if !ok {
		return false
	}
	id, ok := call.Fun.(*ast.Ident)
	if !ok || id.Name != "simYield" || len(call.Args) < 2 {
		return false
	}
	p, ok := call.Args[1].(*ast.Ident)
	return ok && (p.Name == "simBeforeRLock" || p.Name == "simBeforeLock")
}

func lit(b bool, pos token.Pos) ast.Expr {
	if b {
		return &ast.BasicLit{Kind: token.INT, Value: "1", ValuePos: pos}
	}
	return &ast.BasicLit{Kind: token.INT, Value: "0", ValuePos: pos}
}

// call builds `name(args...)` positioned at pos, so that the printer keeps the comments of
// the file where they were.
func call(name string, pos token.Pos, args ...ast.Expr) ast.Stmt {
	return &ast.ExprStmt{X: &ast.CallExpr{Fun: &ast.Ident{Name: name, NamePos: pos}, Lparen: pos, Args: args, Rparen: pos}}
}

func rewriteList(list []ast.Stmt) []ast.Stmt {
	var out []ast.Stmt
	for i, s := range list {
		if recv, args, write, ok := lockCall(s); ok {
			switch {
			case len(args) == 0 && addressable(recv):
				sites++
				out = append(out, call("simMuYield", s.Pos(), &ast.UnaryExpr{Op: token.AND, OpPos: s.Pos(), X: recv}, lit(write, s.Pos())))
			case len(args) == 1 && !(i > 0 && isSimYield(list[i-1])):
				latchSites++
				out = append(out, call("simLatchYield", s.Pos(), recv, args[0], lit(write, s.Pos())))
			}
		}
		out = append(out, s)
	}
	return out
}

func rewriteFile(path string) error {
	fset := token.NewFileSet()
	src, err := os.ReadFile(path)
	if err != nil {
		return err
	}
	src = bytes.ReplaceAll(src, []byte("\r\n"), []byte("\n"))
	f, err := parser.ParseFile(fset, path, src, parser.ParseComments)
	if err != nil {
		return err
	}
	before := sites + latchSites
	ast.Inspect(f, func(n ast.Node) bool {
		switch x := n.(type) {
		case *ast.BlockStmt:
			x.List = rewriteList(x.List)
		case *ast.CaseClause:
			x.Body = rewriteList(x.Body)
		case *ast.CommClause:
			x.Body = rewriteList(x.Body)
		}
		return true
	})
	if sites+latchSites == before {
		return nil
	}
	var buf bytes.Buffer
	if err := format.Node(&buf, fset, f); err != nil {
		return err
	}
	return os.WriteFile(path, buf.Bytes(), 0o644)
}

const helperRoot = `package column

import "github.com/kelindar/smutex"

// SimMuHook is called before every sync.Mutex / sync.RWMutex acquisition of this package
// (inserted by /verif/tools/instr into a scratch copy; never part of the repository).
var SimMuHook func(mu any, write bool)

func simMuYield(mu any, write int) {
	if SimMuHook != nil {
		SimMuHook(mu, write == 1)
	}
}

func simLatchYield(l *smutex.SMutex128, shard uint, write int) {
	if SimHook != nil {
		p := simBeforeRLock
		if write == 1 {
			p = simBeforeLock
		}
		SimHook(nil, l, p, uint32(shard))
	}
}
`

const helperOther = `package %s

// SimMuHook is called before every sync.Mutex / sync.RWMutex acquisition of this package
// (inserted by /verif/tools/instr into a scratch copy; never part of the repository).
var SimMuHook func(mu any, write bool)

func simMuYield(mu any, write int) {
	if SimMuHook != nil {
		SimMuHook(mu, write == 1)
	}
}
`

func main() {
	if len(os.Args) != 2 {
		fmt.Fprintln(os.Stderr, "usage: instr <dir>")
		os.Exit(2)
	}
	root := os.Args[1]
	for _, pkg := range []struct{ dir, name string }{{".", "column"}, {"commit", "commit"}} {
		dir := filepath.Join(root, pkg.dir)
		ents, err := os.ReadDir(dir)
		if err != nil {
			fmt.Fprintln(os.Stderr, err)
			os.Exit(2)
		}
		for _, e := range ents {
			n := e.Name()
			if e.IsDir() || !strings.HasSuffix(n, ".go") || strings.HasSuffix(n, "_test.go") || strings.HasPrefix(n, "zz_simmu") {
				continue
			}
			if err := rewriteFile(filepath.Join(dir, n)); err != nil {
				fmt.Fprintln(os.Stderr, "instr:", err)
				os.Exit(2)
			}
		}
		helper := helperRoot
		if pkg.name != "column" {
			helper = fmt.Sprintf(helperOther, pkg.name)
		}
		if err := os.WriteFile(filepath.Join(dir, "zz_simmu.go"), []byte(helper), 0o644); err != nil {
			fmt.Fprintln(os.Stderr, err)
			os.Exit(2)
		}
	}
	fmt.Printf("instr: %d mutex sites, %d latch sites without a preceding hook\n", sites, latchSites)
}
