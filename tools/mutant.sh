#!/bin/sh
# Evaluate one property-breaking change against the checks.
#   tools/mutant.sh <patch.diff> [--suite] [props...]
# Applies the patch to a scratch worktree of /repo's HEAD (outside /repo and /verif), optionally
# runs the pinned suite with it, then runs the quick checks against it (VERIF_REPO) and removes
# the worktree again. Prints one line per check: DETECTED (exit 1 + VIOLATION), missed (exit 0), error.
set -u
cd "$(dirname "$0")/.."
PATCH=$(readlink -f "$1"); shift
SUITE=0; [ "${1:-}" = "--suite" ] && { SUITE=1; shift; }
PROPS=${*:-$(python3 -c "import json;print(' '.join(c['property_id'] for c in json.load(open('MANIFEST.json'))['checks']))")}
export GOFLAGS=-mod=mod GOPROXY=off GOSUMDB=off
export COLSIM_MINBUDGET=${COLSIM_MINBUDGET:-5}   # mutation runs only need the verdict: short minimisation
D=/tmp/mutrun/$$; mkdir -p /tmp/mutrun
git -C /repo worktree add -q --detach "$D" HEAD || exit 2
trap 'git -C /repo worktree remove --force "$D" >/dev/null 2>&1; rm -rf "$D"' EXIT
if ! git -C "$D" apply "$PATCH"; then echo "PATCH DOES NOT APPLY"; exit 2; fi
if ! (cd "$D" && go build ./... && go build -tags verif ./...) ; then echo "MUTANT DOES NOT BUILD"; exit 2; fi
if [ $SUITE = 1 ]; then
  if (cd "$D" && TMPDIR=$D/.tmp && mkdir -p $TMPDIR && go test -vet=off -count=1 . ./commit >"$D/.suite.out" 2>&1); then echo "pinned suite: PASS"; else echo "pinned suite: FAIL"; tail -5 "$D/.suite.out"; fi
fi
mkdir -p .work
for p in $PROPS; do
  VERIF_REPO=$D VERIF_SEED=${VERIF_SEED:-1} ./check $p quick > .work/mut_$$_$p.out 2>&1; rc=$?
  case $rc in
    1) echo "$p DETECTED $(grep -m1 'signature=' .work/mut_$$_$p.out | sed 's/^ *//' | cut -c1-150)";;
    0) echo "$p missed   $(grep '^check:' .work/mut_$$_$p.out | tail -1 | cut -c1-110)";;
    *) echo "$p error rc=$rc $(tail -2 .work/mut_$$_$p.out | tr '\n' ' ' | cut -c1-200)";;
  esac
  rm -f .work/mut_$$_$p.out
done
