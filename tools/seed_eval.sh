#!/bin/sh
# Confirm a sub-agent's property-breaking change independently and run the checks against it.
#   tools/seed_eval.sh <agent dir> <N> <seeded id> <property> [more props...]
# Steps (all in a scratch worktree outside /repo and /verif, removed afterwards):
#  1 patch applies and builds  2 pinned suite passes with it  3 demo FAILS with it  4 demo PASSES without it
#  5 the quick checks of the given properties are run against the patched tree (VERIF_REPO)
# On success the change is stored as /verif/seeded/<id>/{patch.diff,demo_test.go.txt,meta.json,notes.md}.
set -u
cd "$(dirname "$0")/.."
SRC=$1; N=$2; ID=$3; shift 3; PROPS="$*"
export GOFLAGS=-mod=mod GOPROXY=off GOSUMDB=off
D=/tmp/seedrun/$$; mkdir -p /tmp/seedrun
git -C /repo worktree add -q --detach "$D" HEAD || exit 2
trap 'git -C /repo worktree remove --force "$D" >/dev/null 2>&1; rm -rf "$D"' EXIT
PATCH=$SRC/mutant$N.diff; DEMO=$SRC/mutant${N}_demo_test.go.txt
git -C "$D" apply "$PATCH" || { echo "PATCH DOES NOT APPLY"; exit 2; }
(cd "$D" && go build ./... && go build -tags verif ./...) || { echo "DOES NOT BUILD"; exit 2; }
mkdir -p "$D/.tmp"; export TMPDIR="$D/.tmp"
SUITE=PASS; (cd "$D" && go test -vet=off -count=1 . ./commit >"$D/.suite" 2>&1) || SUITE=FAIL
echo "suite with change: $SUITE"
TAGS=""; grep -q "go:build verif" "$DEMO" && TAGS="-tags verif"
TESTS=$(grep -o "^func Test[A-Za-z0-9_]*" "$DEMO" | sed 's/func //' | paste -sd'|')
cp "$DEMO" "$D/zz_seed_demo_test.go"
WITH=PASS; (cd "$D" && timeout 300 go test $TAGS -vet=off -count=1 -run "^($TESTS)\$" . >"$D/.with" 2>&1) || WITH=FAIL
git -C "$D" apply -R "$PATCH"
WITHOUT=PASS; (cd "$D" && timeout 300 go test $TAGS -vet=off -count=1 -run "^($TESTS)\$" . >"$D/.without" 2>&1) || WITHOUT=FAIL
echo "demo with change: $WITH   demo without change: $WITHOUT   (go test $TAGS -run '$TESTS')"
rm -f "$D/zz_seed_demo_test.go"
unset TMPDIR
RES=$(tools/mutant.sh "$PATCH" $PROPS)
echo "$RES"
if [ "$SUITE" = PASS ] && [ "$WITH" = FAIL ] && [ "$WITHOUT" = PASS ]; then
  mkdir -p seeded/$ID
  cp "$PATCH" seeded/$ID/patch.diff; cp "$DEMO" seeded/$ID/demo_test.go.txt; cp "$SRC/mutant$N.md" seeded/$ID/notes.md
  python3 - "$ID" "$PROPS" "$TAGS" "$TESTS" "$RES" <<'PY'
import json,sys
id_,props,tags,tests,res=sys.argv[1:6]
det=[l.split()[0] for l in res.splitlines() if ' DETECTED ' in l]
mis=[l.split()[0] for l in res.splitlines() if ' missed ' in l]
notes=open('seeded/%s/notes.md'%id_).read()
meta={"id":id_,"breaks_property":props.split()[0],"source":"independent sub-agent given only the property text and a scratch worktree",
 "needs_to_manifest":"see notes.md (written by the sub-agent)",
 "confirmed":{"pinned_suite_with_change":"PASS","demo_with_change":"FAIL","demo_without_change":"PASS",
   "demo_cmd":"copy demo_test.go.txt into the package as *_test.go; go test %s -vet=off -count=1 -run '^(%s)$' ."%(tags,tests)},
 "checks_run":["VERIF_REPO=<scratch worktree with patch.diff applied> ./check %s quick"%p for p in props.split()],
 "detected_by":det,"missed_by":mis,"check_output":res.splitlines()}
json.dump(meta,open('seeded/%s/meta.json'%id_,'w'),indent=1)
PY
  echo "STORED seeded/$ID"
else
  echo "NOT STORED (confirmation failed)"; tail -5 "$D/.with" 2>/dev/null
fi
