#!/bin/sh
# Re-run the checks recorded in every seeded/<id>/meta.json against its patch and refresh the verdicts.
cd "$(dirname "$0")/.."
for d in ${*:-seeded/*}; do
  [ -f $d/meta.json ] || continue
  props=$(python3 -c "import json;m=json.load(open('$d/meta.json'));print(' '.join(c.split()[-2] for c in m['checks_run']))")
  res=$(tools/mutant.sh $d/patch.diff $props)
  echo "## $d"; echo "$res" | cut -c1-160
  python3 - "$d" "$res" <<'PY'
import json,sys
d,res=sys.argv[1:3]
m=json.load(open(d+'/meta.json'))
det=[l.split()[0] for l in res.splitlines() if ' DETECTED ' in l]
mis=[l.split()[0] for l in res.splitlines() if ' missed ' in l]
first=m.get('first_evaluation') or {"detected_by":m.get('detected_by',[]),"missed_by":m.get('missed_by',[])}
m['first_evaluation']=first
m['detected_by']=det; m['missed_by']=mis; m['check_output']=res.splitlines()
json.dump(m,open(d+'/meta.json','w'),indent=1)
PY
done
