#!/usr/bin/env python3
"""Print the markdown table of /verif/seeded/*/meta.json (which checks catch which change)."""
import json, glob, os, re
rows = []
for f in sorted(glob.glob(os.path.join(os.path.dirname(__file__), '..', 'seeded', '*', 'meta.json'))):
    m = json.load(open(f))
    notes = open(os.path.join(os.path.dirname(f), 'notes.md')).read()
    first = m.get('first_evaluation') or {}
    what = m.get('summary') or re.sub(r'\s+', ' ', notes.split('\n\n')[0].lstrip('# '))[:160]
    sigs = []
    for l in m.get('check_output', []):
        mm = re.match(r'(C\d+) DETECTED signature=(\S+)', l)
        if mm:
            sigs.append('%s `%s`' % (mm.group(1), mm.group(2)))
    hist = ''
    if first and first.get('missed_by') and not set(first.get('detected_by', [])):
        hist = ' (missed at first; see strengthening)'
    rows.append('| %s | %s | %s | %s%s | %s |' % (m['id'], m['breaks_property'], what, '; '.join(sigs) or '—', hist, ', '.join(m.get('missed_by', [])) or '—'))
print('| seeded change | breaks | what it is | caught by (signature) | also run, not caught |')
print('|---|---|---|---|---|')
print('\n'.join(rows))
