#!/bin/sh
# Background sweep: every claimed check at several seeds with a multiple of the quick budget.
# usage: tools/sweep.sh "<seeds>" <multiplier> [props...]
cd "$(dirname "$0")/.."
mkdir -p .work
SEEDS=${1:-"11 12 13"}; MULT=${2:-4}; shift 2 2>/dev/null
PROPS=${*:-$(python3 -c "import json;print(' '.join(c['property_id'] for c in json.load(open('MANIFEST.json'))['checks']))")}
for s in $SEEDS; do for p in $PROPS; do
  q=$(python3 - "$p" <<'PY'
import re,sys
src=open('sim/props.go').read()
m=re.search(r'ID: "%s", Quick: (\d+)'%sys.argv[1],src); print(m.group(1) if m else 1000)
PY
)
  VERIF_SEED=$s VERIF_RUNS=$((q*MULT)) VERIF_WALL_CAP=1500 ./check $p quick > .work/sweep_${p}_${s}.out 2>&1; rc=$?
  echo "seed=$s prop=$p rc=$rc $(grep '^check:' .work/sweep_${p}_${s}.out | tail -1)"; grep -h "^VIOLATION" -A2 .work/sweep_${p}_${s}.out | head -12
done; done
