#!/opt/veriftools/pyvenv/bin/python
import json, jsonschema, sys, glob
m = json.load(open('/verif/MANIFEST.json'))
jsonschema.validate(m, json.load(open('/root/.vp/MANIFEST.schema.json')))
es = json.load(open('/root/.vp/EVIDENCE.schema.json'))
for f in sorted(glob.glob('/verif/evidence/*.json')):
    jsonschema.validate(json.load(open(f)), es)
    print('ok', f)
ids = [json.loads(l)['id'] for l in open('/verif/properties.jsonl')]
claimed = [c['property_id'] for c in m['checks']]
na = [c['property_id'] for c in m.get('not_applicable', [])]
print('claimed', claimed); print('not_applicable', na); print('unaccounted', [i for i in ids if i not in claimed and i not in na])
